#!/venv/bin/python
"""Regenerates MANIFEST.json from the table below (run from /verif)."""
import json
import os

HERE = os.path.dirname(os.path.dirname(os.path.abspath(__file__)))

H = "xv-history-explorer"
E = "xv-exhaustive-enumerator"

MC = "explicit-state model checking of the implementation (exhaustive bounded history exploration, reference-model oracle)"
EN = "exhaustive enumeration of a finite input/configuration space executed on the implementation (bounded model checking of inputs), reference-model oracle"

CLAIMS = {
    "C01": (H, "model_checking", MC,
            "every assignment history up to the stated depth over small adversarial worlds (nested siblings, list items, attributes, computed keys, whole-container readers, FunctionTask, LinearKnob) is executed on the real Manager and compared with the reference model (contents AND the set of definitions) after every operation; plus updates with several start locations (functions generated for two inputs), special float values, and a finite deep/wide graph family up to 20000 tasks",
            "bounded depth, two-value alphabet; compiled build of the working tree; hash seeds enumerated; the sibling-cycle defect is a listed known finding recognised by a four-condition classifier"),
    "C02": (H, "model_checking", MC,
            "every assignment of every explored history is executed once per permutation of the start set (toposort seam) and per hash seed; its write trace must be exactly the model's trigger set, once each, in precise data-flow order; cyclic alphabets for termination/at-most-once; toposort itself on all digraphs with <= 4 nodes",
            "start sets larger than 4 are not fully permuted (counted in the evidence); FunctionTask actions write directly"),
    "C03": (H, "model_checking", MC,
            "every register/unregister/assign/load/refresh/cleanup history up to the depth bound; after every operation index supports are compared with a derivation from the surviving tasks, verify()/clone() are exercised and all queries are compared with a fresh manager",
            "indices compared by support; follow-up behaviour is the next search level judged against the reference model"),
}

FE = "fault enumeration on the implementation (every failing write position of every update of every explored history), reference-model oracle"
CLAIMS.update({
    "C04": (E, "exploration", EN,
            "every operator x operand form x ordered value pair of a stated domain, every unary/builtin, calls, item/attribute access with constant and computed keys, all in-place operators, and all expression trees to depth 2 (depth 3 over representative operators) are built on real refs and evaluated before and after changing the operands; value AND type (or exception type) must equal the same Python operator on plain values, zero division giving NaN",
            "finite value domain chosen to hit every guard (zero divisors, bools, complex, numpy scalars/arrays); numpy-on-the-left excluded as the property says"),
    "C05": (E, "exploration", EN,
            "every BaseRef subclass discovered by introspection x every operand slot x nesting depth <= 2: reported dependencies must be a set equal to the structural walk; plus perturb-one-location experiments through set_value for soundness",
            "operand slots are discovered from the classes themselves; a class the constructor table cannot build is reported as uncovered"),
    "C06": (E, "exploration", EN,
            "all item/attribute paths of depth <= 2 over an adversarial key pool (quotes, brackets, dots, unicode, look-alike text, ints, floats, tuples) and depth 3-4 over a sub-pool, ALL ordered pairs compared with ==, hash and dict membership against structural equality; expression trees built twice; 4x10^5-key family through a dict",
            "keys within the pool are pairwise unequal Python values; labels are identifiers"),
    "C07": (H, "model_checking", MC,
            "every history of Table-API mutations (cell assignment into the index column by position, by name and several at once through slices / position lists / masks, whole-column and attribute-style assignment, other cells, new/deleted/popped columns, appended rows, switching the index column) interleaved with cache-building lookups, to the depth bound; after every operation every (name, count, offset) designator in string and tuple form is resolved through get/set/get_index/floordiv on an own replica and compared with a linear scan; unique labels and show() resolve back",
            "names avoid the separator substrings; offsets only when landing inside the table; tables of 0..5 rows over a 3-name alphabet"),
    "C12": (H, "model_checking", MC,
            "on every manager state reached by assignment histories over every node class: pickle round trip, identical dump, index consistency and verify() on the copy, mirrored follow-up assignments on both, independence of the two",
            "containers are picklable harness classes; bounded depth"),
    "C13": (H, "model_checking", MC,
            "on every reached acyclic expression-task state x every non-empty leaf subset (<= 3) x argument values: gen_fun(...)(*vals) against a twin driven by set_value; emitted lines are the model trigger set once each in precise data-flow order",
            "division by zero inputs excluded as the property says; sibling-cycle ordering defect is a listed known finding"),
    "C17": (H, "model_checking", MC,
            "phased histories h1 . freeze . every API call (<= k) . unfreeze . h2: a rejected call raises ValueError and leaves the entire concrete state identical; value assignments propagate as in the reference model; after unfreeze the state equals the never-frozen twin; includes plain assignments to knob targets, function tasks that assign through the manager's references, and (only while frozen) definitions that cannot be evaluated or whose evaluation has an effect",
            "bounds on the phase lengths stated in the evidence"),
    "C18": (H, "fault_enumeration", FE,
            "for every explored history and every assignment, the fault-free write trace is recorded and then every write position k is made to fail (also FunctionTask actions), in every exception class a container really raises; sequences of up to two faulty updates (the same assignment or another value), the second compared write for write with the never-failed run; then the fault-free repeat: exception reaches the caller, writes are the prefix W[:k] and nothing runs after the failing point, indices consistent, repeat re-establishes the pull-model contents",
            "faults are injected by harness-side logging containers; 'definitions unchanged' accepts either the pre-update or the established definition (DESIGN section 6)"),
})

CLAIMS.update({
    "C08": (E, "exploration", EN,
            "ALL index columns over a 3-name alphabet of length 0..5 (plus fixed larger tables) x every selector of the documented grammar (positions, position lists, masks, slices, regex with ::count and <<k / >>k, name spans, value ranges with both/one/no bound, name lists) through rows/indices/mask against a naive reference over the raw columns; ALL ordered pairs of a 40-selector core for rows[s1,s2] == rows[s1].rows[s2]; repeated per hash seed with result digests compared",
            "names distinct under case folding, no regex metacharacters; explicit lists keep the given order (pinned by the suite); shifts judged only when landing inside"),
    "C14": (H, "model_checking", MC,
            "every history of derivations (rows incl. integer-array selectors that are columns of the table / cols incl. expressions/+/*/concatenate/_copy/_t/reverse/head/tail) and column assignments up to the depth bound from base tables of 0..3 rows with float/int/string/object columns, a scalar and a vector-valued non-column entry; the constructor over dtype triples x ragged lengths and over every col_names / index request; after every operation: rectangularity invariant, source snapshot unchanged around the derivation, contents equal a plain-list model, scalars carried over, column expressions equal numpy element-wise",
            "write isolation of later assignments through shared arrays is not claimed by the property and not demanded"),
})

CLAIMS.update({
    "C09": (E, "exploration", EN,
            "full product of a configuration grid (18 merit-function families incl. inconsistent / rank-deficient / non-monotone ones x starts x limits x tolerances incl. unreachable x knob and target weights x n_steps_max x Broyden x disabled knobs/targets), re-use of an optimizer after the knobs were moved, and fault enumeration: every call position of the user's action during solve() raising once; normal return => independent evaluation within every active tolerance (exact); exception => knobs and flags equal log row 0",
            "assert_within_tol / restore_if_fail at their defaults; starts strictly inside the limits; no NaN-producing functions"),
    "C10": (E, "exploration", EN,
            "full product of a grid with exterior/far solutions: limit boxes x per-knob max_step (uniform, different per knob, partial) x weights x persistent and one-call disabling of knobs/targets (by index, tag and name) x step(n)/solve() x Broyden, plus sub-grids over the source of the limits (Vary arguments or the container's vary_default) and check_limits=False; every log row and the container inside the closed limits, every Jacobian-step row within max_step, disabled knobs never written with another value, differential twins for disabled targets (another function; nan / inf away from the start; bit-identical trajectory), flags restored after one-call disabling",
            "limits exact for unit weights / 2 ulp otherwise; max_step with 4e-12 relative slack; see DESIGN section 6 for what counts as changing a disabled knob"),
})

CLAIMS.update({
    "C15": (H, "model_checking", MC,
            "every sequence of Optimize API calls (step, step without take_best, Broyden step, solve incl. failing solves, reload first/middle/last, tag, enable/disable knob and target, clear_log) up to the depth bound on families with a non-monotone Newton iteration, an overshooting one, an inconsistent system, limits and weights (also weights far below 1 with loose tolerances); after every call every row of log() is re-evaluated independently (targets exact, penalty 1e-12), reload(i) restores row i bit-exactly, a returning step(take_best) ends within tolerance or on a minimum-penalty row of that call and never worse than it started",
            "states are merged on the full log + containers + flags + solver state; a step that raises is not a returning step"),
    "C16": (E, "exploration", EN,
            "SVD.lstsq on U diag(s) V^T for every shape 1..6 x 1..6, exact orthogonal factors, singular-value patterns (full, rank-deficient, graded, scaled, repeated), rhs in/out of range, rcond and cut-off settings given at construction and/or per call (0 included) on re-used objects, judged by the Moore-Penrose characterisation on the truncated system (plus pinv cross-check) and all 2x2/2x3 matrices over {-1,0,1,2}; consistent linear problems cond<=100: first step lands on the solution (minimum-norm step when under-determined) and solve() succeeds with Broyden off/on/every 2; weight and rescale_x maps inverse on a lattice; step ; edit targets / knob limits / weights ; step sequences; view Jacobians vs closed form vs central differences for every return_scalar x rescale_x, with every single knob / target disabled",
            "finite families, stated tolerances; threshold-ambiguous truncations skipped and counted"),
})

CLAIMS.update({
    "C19": (E, "exploration", EN,
            "every string derivable from calc_grammar within the depth bound (depth 1 over all NUMBER forms, dotted names, element->field, sin(.), atan2(.,.), + - * / ^ **, unary signs, parentheses; depth 2 over a reduced terminal set), generated by the grammar's own rules so the parse is known by construction, in item and attribute element mode, with plain variables and with variables themselves defined by expressions (and redefined through the manager): deferred value == guarded reference (bit exact / NaN aware / same exception type), immediate == unguarded reference (ZeroDivisionError on a zero divisor), fully parenthesised rendering == Python eval of the mirrored expression; repeated after every variable and element field was changed through the manager, including dependants defined from the expressions",
            "terminal sets and depth stated in the evidence; exceptions compared by type"),
})

CLAIMS.update({
    "C11": (H, "model_checking", MC + "; term level: exhaustive enumeration of a finite expression language",
            "term level: every expression of a stated finite language (all operators x operand forms over refs and finite numeric constants incl. negatives/exponents to depth 2 and selected depth 3, builtins with parameters, math.floor/ceil/trunc, calls with positional/keyword numeric arguments, an adversarial key pool incl. keys containing the container labels, computed keys) is printed, evaluated back and must be ==, hash-equal, same value/exception type, same dependencies, and loadable by Manager.load; manager level: on every state reached by assignment histories (incl. load/copy_expr_from with overwrite True/False as operations, and a world whose keys contain the labels) dump()->load() into a fresh manager and copy_expr_from under the rebinding maps s->{s, t, s[sub], t[sub]} must give, state for state (tasks and the four indices with order and counts), the manager obtained by assigning the same definitions, with every definition keeping value and dependencies, and must react to every follow-up assignment as the reference model prescribes",
            "constants are finite ints/floats; deferred-equality nodes (._eq/._neq) are a listed known finding; expression-task-only alphabets (dump covers expression tasks)"),
})

CLAIMS.update({
    "C20": (H, "model_checking", "exhaustive enumeration of configurations (build mode x hash seed) x bounded program corpora executed on the implementation; transcript equality",
            "every manager history up to the depth bound over four alphabets (nested siblings; every node class, LinearKnob; sibling re-definitions; diamonds with functions generated for two inputs), every operator and builtin over every pair of 22 operand value kinds, every term of the C04/C11 expression corpus and all ordered pairs of an adversarial path family are executed in a separate interpreter for every configuration in {extension compiled from the working tree, pure-Python fallback} x PYTHONHASHSEED range; canonical transcripts (contents after every operation, exception types, definitions, dump text, pickle copy and follow-up; printed form, typed value, dependencies, equality and hash consistency) must be identical",
            "exceptions by type; hash values themselves not compared; signed zeros not distinguished (Cython 3.3 object multiply returns +0.0 for 0.0 * -3, reproduced outside xdeps); histories whose order the model finds under-determined by the recorded sibling-cycle finding are excluded statically and counted"),
})

NOT_YET = "check under construction in this session; not yet claimed"


# round-5 extensions (appended to the claim texts)
ROUND5 = {
    "C01": "; an assignment whose first attempt fails at a dependant's write and which is then repeated; repeated in-place updates with a plain operand",
    "C03": "; on every state a replacement whose evaluation fails: whatever tasks the manager then holds, its indices follow from them and verify() passes",
    "C06": "; the manager's default label '_' and the container refs themselves; the second copy of every path is built by another manager over containers in which every path resolves; expression copies built from fresh literal objects",
    "C07": "; names that match another entry when read as a case-insensitive regular expression; a 33-row table with repr(); tables derived (t*2, t+t, copy, reversed) after lookups resolve against their own index column; show(rows=...) with the recorded known finding show-rows-labels",
    "C08": "; rows.mask for all selector pairs; a column with nan entries in value ranges; select ; mutate through the table API ; select again on one table object",
    "C09": "; failing solves that never travel (started on / within 1e-12 of the least-squares point of an inconsistent system; unit, huge and small weights)",
    "C10": "; step ; a target disabled ; Broyden step, judged on linear problems against the same problem in which the target was never active",
    "C11": "; one destination manager used twice (rebound copy, then plain copy / load); int keys beyond 64 bits; an element and the container holding it both defined x destination pre-definitions x overwrite",
    "C12": "; a manager pickled in one interpreter and restored in others under other hash seeds; the default container used attribute-style; the same pickle loaded a second time (the second copy gets an assignment of its own); gen_fun in the alphabets; sibling chains to depth 4/5 with direct agreement of copy and original also where the model leaves the order open",
    "C13": "; builtins and math.floor in triggered expressions; the generated function called again with equal arguments after an argument location was changed by another route; definitions differing only in literals of equal hash; argument values equal to but not the same as the stored ones",
    "C14": "; row selections with several selectors at once; Table.concatenate on tables whose index column is not called 'name'; a column whose name contains the index column's name",
    "C16": "; singular values tiny / huge in absolute terms; solve ; knobs moved by hand ; solve; rescale_x mappings at points outside the limits; Jacobian ; disable a knob ; Jacobian on one view",
    "C17": "; definitions whose expression reads no location (constant call, arithmetic on explicit literals)",
    "C19": "; further valuations in which the whole element is replaced through the manager and consecutive values have equal Python hashes",
    "C20": "; printing / hashing / comparing a term are outcomes of their own; programs over two managers",
}
for _p, _t in ROUND5.items():
    _c = CLAIMS[_p]
    CLAIMS[_p] = (_c[0], _c[1], _c[2], _c[3] + _t, _c[4])


def main():
    props = [json.loads(l)["id"] for l in open(os.path.join(HERE, "properties.jsonl"))]
    checks = []
    for pid in props:
        if pid not in CLAIMS:
            continue
        eng, level, tech, text, note = CLAIMS[pid]
        checks.append({
            "property_id": pid,
            "quick_cmd": f"./check {pid} quick",
            "thorough_cmd": f"./check {pid} thorough",
            "evidence_file": f"evidence/{pid}.json",
            "replay_cmd_template": f"./check {pid} --replay {{path}}",
            "engine": eng,
            "level_claimed": {"category": level, "text": text, "design_ref": f"DESIGN.md section 3, {pid}"},
            "level_note": note,
            "technique": tech,
        })
    man = {
        "version": 1,
        "setup_cmd": "true",
        "hooks": {
            "guard": "XDEPS_VERIF",
            "enable": "no source hooks are needed: checks observe through harness-side logging containers, harness-owned actions and the module-global xdeps.tasks.toposort seam; the guard is unused",
            "baseline_off_cmd": "cd /repo && /venv/bin/python -m pytest -ra -q -p no:cacheprovider --timeout=900 --continue-on-collection-errors",
            "source_commits": [],
            "add_only": True,
        },
        "engines": [
            {"name": H, "path": "xv/explore.py",
             "serves_properties": [p for p in props if p in CLAIMS and CLAIMS[p][0] == H],
             "kind_free_text": "explicit-state breadth-first search over operation histories of the real implementation (states rebuilt by replay, merged on a full canonical digest across a fork pool); reference-model comparison on every transition"},
            {"name": E, "path": "xv/enumerate.py",
             "serves_properties": [p for p in props if p in CLAIMS and CLAIMS[p][0] == E],
             "kind_free_text": "complete enumeration of finite input / program / configuration spaces executed on the implementation with exact counting"},
        ],
        "checks": checks,
        "notes": "All checks rebuild /repo's working tree into a scratch directory under /var/tmp (compiled with Cython and/or pure Python), never import /repo itself, and remove the scratch directory on exit. known_findings.txt is read-only at run time.",
        "not_applicable": [{"property_id": p, "reason": NOT_YET} for p in props if p not in CLAIMS],
    }
    with open(os.path.join(HERE, "MANIFEST.json"), "w") as fh:
        json.dump(man, fh, indent=1)
    print("claimed", [c["property_id"] for c in checks])


if __name__ == "__main__":
    main()
