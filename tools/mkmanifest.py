#!/venv/bin/python
"""Regenerates MANIFEST.json from the table below (run from /verif)."""
import json
import os

HERE = os.path.dirname(os.path.dirname(os.path.abspath(__file__)))

H = "xv-history-explorer"
E = "xv-exhaustive-enumerator"

MC = "explicit-state model checking of the implementation (exhaustive bounded history exploration, reference-model oracle)"
EN = "exhaustive enumeration of a finite input/configuration space executed on the implementation (bounded model checking of inputs), reference-model oracle"

CLAIMS = {
    "C01": (H, "model_checking", MC,
            "every assignment history up to the stated depth over small adversarial worlds (nested siblings, list items, attributes, computed keys, whole-container readers, FunctionTask, LinearKnob) is executed on the real Manager and compared with the reference model after every operation; plus a finite deep/wide graph family up to 20000 tasks",
            "bounded depth, two-value alphabet; compiled build of the working tree; hash seeds enumerated; the sibling-cycle defect is a listed known finding recognised by a four-condition classifier"),
    "C02": (H, "model_checking", MC,
            "every assignment of every explored history is executed once per permutation of the start set (toposort seam) and per hash seed; its write trace must be exactly the model's trigger set, once each, in precise data-flow order; cyclic alphabets for termination/at-most-once; toposort itself on all digraphs with <= 4 nodes",
            "start sets larger than 4 are not fully permuted (counted in the evidence); FunctionTask actions write directly"),
    "C03": (H, "model_checking", MC,
            "every register/unregister/assign/load/refresh/cleanup history up to the depth bound; after every operation index supports are compared with a derivation from the surviving tasks, verify()/clone() are exercised and all queries are compared with a fresh manager",
            "indices compared by support; follow-up behaviour is the next search level judged against the reference model"),
}

NOT_YET = "check under construction in this session; not yet claimed"


def main():
    props = [json.loads(l)["id"] for l in open(os.path.join(HERE, "properties.jsonl"))]
    checks = []
    for pid in props:
        if pid not in CLAIMS:
            continue
        eng, level, tech, text, note = CLAIMS[pid]
        checks.append({
            "property_id": pid,
            "quick_cmd": f"./check {pid} quick",
            "thorough_cmd": f"./check {pid} thorough",
            "evidence_file": f"evidence/{pid}.json",
            "replay_cmd_template": f"./check {pid} --replay {{path}}",
            "engine": eng,
            "level_claimed": {"category": level, "text": text, "design_ref": f"DESIGN.md section 3, {pid}"},
            "level_note": note,
            "technique": tech,
        })
    man = {
        "version": 1,
        "setup_cmd": "true",
        "hooks": {
            "guard": "XDEPS_VERIF",
            "enable": "no source hooks are needed: checks observe through harness-side logging containers, harness-owned actions and the module-global xdeps.tasks.toposort seam; the guard is unused",
            "baseline_off_cmd": "cd /repo && /venv/bin/python -m pytest -ra -q -p no:cacheprovider --timeout=900 --continue-on-collection-errors",
            "source_commits": [],
            "add_only": True,
        },
        "engines": [
            {"name": H, "path": "xv/explore.py",
             "serves_properties": [p for p in props if p in CLAIMS and CLAIMS[p][0] == H],
             "kind_free_text": "explicit-state breadth-first search over operation histories of the real implementation (states rebuilt by replay, merged on a full canonical digest across a fork pool); reference-model comparison on every transition"},
            {"name": E, "path": "xv/enumerate.py",
             "serves_properties": [p for p in props if p in CLAIMS and CLAIMS[p][0] == E],
             "kind_free_text": "complete enumeration of finite input / program / configuration spaces executed on the implementation with exact counting"},
        ],
        "checks": checks,
        "notes": "All checks rebuild /repo's working tree into a scratch directory under /var/tmp (compiled with Cython and/or pure Python), never import /repo itself, and remove the scratch directory on exit. known_findings.txt is read-only at run time.",
        "not_applicable": [{"property_id": p, "reason": NOT_YET} for p in props if p not in CLAIMS],
    }
    with open(os.path.join(HERE, "MANIFEST.json"), "w") as fh:
        json.dump(man, fh, indent=1)
    print("claimed", [c["property_id"] for c in checks])


if __name__ == "__main__":
    main()
