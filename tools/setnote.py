#!/venv/bin/python
"""tools/setnote.py <seed id> "<note>": records what strengthening a missed seeded change prompted (meta.json 'strengthening')."""
import json, os, sys
HERE = os.path.dirname(os.path.dirname(os.path.abspath(__file__)))
p = os.path.join(HERE, "seeded", sys.argv[1], "meta.json")
m = json.load(open(p)); m["strengthening"] = sys.argv[2]; json.dump(m, open(p, "w"), indent=1)
