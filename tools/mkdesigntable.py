#!/venv/bin/python
"""tools/mkdesigntable.py: prints the 'seed | what was added' table of DESIGN.md section 14 from the seeded/*/meta.json files
(one row per seeded change that the check of its own property missed when it arrived)."""
import glob, json, os, re
HERE = os.path.dirname(os.path.dirname(os.path.abspath(__file__)))


def key(d):
    m = re.match(r"C(\d+)(?:-r(\d))?-(\d)", os.path.basename(d))
    return (int(m.group(1)), int(m.group(2) or 1), int(m.group(3)))


rows, total, missed = [], 0, 0
for d in sorted(glob.glob(os.path.join(HERE, "seeded", "C*")), key=key):
    meta = json.load(open(os.path.join(d, "meta.json")))
    total += 1
    sid = os.path.basename(d)
    own = meta["checks"].get(meta["property"], {})
    first_missed = "first_run" in own and not own["first_run"]["detected"]
    if first_missed or meta.get("strengthening"):
        missed += 1
        rows.append(f"| {sid} | {meta.get('strengthening', '(see INDEX.md)')} |")
    if not own.get("detected"):
        print("NOT CAUGHT NOW:", sid)
print(f"total={total} missed_at_arrival={missed}")
print("| seed | what was added to the check |\n|---|---|")
print("\n".join(rows))
