#!/venv/bin/python
"""tools/confirm_seed.py <Cxx> <k> "<what it needs to manifest>" [check ids to run, default the property itself]

Confirms a seeded change produced by a sub-agent (files /tmp/seed/out-<Cxx>/change<k>.diff + demo<k>.py,
scratch worktree /tmp/seed/wt-<Cxx>):
  1. applies the change in the scratch worktree (rebuilding the extension when refs.py is touched),
  2. runs the repository's own suite there (must be 76 passed / the 1 pre-existing failure),
  3. runs the demonstration (must fail), reverts the change, runs it again (must pass),
  4. runs the named checks against the change (tools/mut.sh: scratch worktree + XV_REPO, never /repo itself),
and writes /verif/seeded/<Cxx>-<k>/{patch.diff, demo.py, meta.json}.
"""
import json
import os
import re
import shutil
import subprocess
import sys

HERE = os.path.dirname(os.path.dirname(os.path.abspath(__file__)))
PY = "/venv/bin/python"


def sh(cmd, cwd=None, timeout=3600):
    p = subprocess.run(cmd, shell=True, cwd=cwd, stdout=subprocess.PIPE, stderr=subprocess.STDOUT, text=True, timeout=timeout)
    return p.returncode, p.stdout


def main():
    prop, k, needs = sys.argv[1], sys.argv[2], sys.argv[3]
    checks = sys.argv[4:] or [prop]
    rnd = os.environ.get("SEED_ROUND", "")
    wt = f"/tmp/seed/wt{rnd}-{prop}"
    src = f"/tmp/seed/out-R{rnd}-{prop}" if rnd else f"/tmp/seed/out-{prop}"
    diff = f"{src}/change{k}.diff"
    demo = f"{src}/demo{k}.py"
    touches_refs = "xdeps/refs.py" in open(diff).read() or "setup.py" in open(diff).read()
    build = f"{PY} setup.py build_ext --inplace --force >/dev/null 2>&1; rm -f xdeps/refs.c"
    meta = {"property": prop, "needs": needs, "ran": [], "files_touched": sorted(set(re.findall(r"^\+\+\+ b/(\S+)", open(diff).read(), re.M)))}
    sh("git checkout -- .", wt)
    rc, out = sh(f"git apply {diff}", wt)
    assert rc == 0, out
    if touches_refs:
        sh(build, wt)
    rc, out = sh(f"{PY} -m pytest -q -p no:cacheprovider --timeout=900 tests 2>&1 | tail -3", wt)
    summary = out.strip().splitlines()[-1] if out.strip() else ""
    meta["suite_with_change"] = summary
    meta["ran"].append("pytest tests (in the scratch worktree, change applied): " + summary)
    suite_ok = "76 passed" in summary and "1 failed" in summary
    rc_with, out_with = sh(f"{PY} {demo}", wt)
    meta["demo_with_change_exit"] = rc_with
    meta["demo_with_change_tail"] = out_with.strip().splitlines()[-3:]
    sh("git checkout -- .", wt)
    if touches_refs:
        sh(build, wt)
    rc_wo, out_wo = sh(f"{PY} {demo}", wt)
    meta["demo_without_change_exit"] = rc_wo
    meta["ran"].append(f"demo with change: exit {rc_with}; without: exit {rc_wo}")
    meta["confirmed"] = bool(suite_ok and rc_with != 0 and rc_wo == 0)
    meta["checks"] = {}
    for c in checks:
        rc, out = sh(f"MUT_LINES=3 tools/mut.sh {diff} {c} quick", HERE)
        lines = [l for l in out.splitlines() if "conda" not in l]
        meta["checks"][c] = {"exit": rc, "detected": rc == 1, "output": lines[:8]}
        meta["ran"].append(f"tools/mut.sh change{k}.diff {c} quick -> exit {rc}")
    if meta["confirmed"]:
        d = os.path.join(HERE, "seeded", f"{prop}-r{rnd}-{k}" if rnd else f"{prop}-{k}")
        os.makedirs(d, exist_ok=True)
        shutil.copy(diff, os.path.join(d, "patch.diff"))
        shutil.copy(demo, os.path.join(d, "demo.py"))
        with open(os.path.join(d, "meta.json"), "w") as fh:
            json.dump(meta, fh, indent=1)
    print(json.dumps({"id": f"{prop}-r{rnd}-{k}" if rnd else f"{prop}-{k}", "confirmed": meta["confirmed"], "suite": summary, "demo": [rc_with, rc_wo],
                      "detected": {c: v["detected"] for c, v in meta["checks"].items()}}))


if __name__ == "__main__":
    main()
