#!/bin/sh
# tools/allseeds.sh [pattern]: runs every seeded change against the quick check of the property it was written for; prints the misses
cd "$(dirname "$0")/.." || exit 2
ls -d seeded/${1:-*}/ | grep -v INDEX | xargs -P ${PAR:-3} -I{} sh -c 'd={}; id=$(basename $d); p=${id%%-*}; r=$(MUT_LINES=0 tools/mut.sh /verif/$d/patch.diff $p quick 2>/dev/null | grep -c "exit=1"); [ "$r" = "1" ] && echo "caught $id" || echo "MISSED $id"'
