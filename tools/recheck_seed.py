#!/venv/bin/python
"""tools/recheck_seed.py <seed id> "<note>" [checks...]: re-runs the named checks (default: those recorded) against
seeded/<id>/patch.diff in a scratch worktree and updates meta.json (keeping the first result under 'first_run')."""
import json
import os
import subprocess
import sys

HERE = os.path.dirname(os.path.dirname(os.path.abspath(__file__)))
sid, note = sys.argv[1], sys.argv[2]
d = os.path.join(HERE, "seeded", sid)
meta = json.load(open(os.path.join(d, "meta.json")))
checks = sys.argv[3:] or list(meta["checks"])
for c in checks:
    p = subprocess.run(f"MUT_LINES=3 tools/mut.sh {d}/patch.diff {c} quick", shell=True, cwd=HERE, stdout=subprocess.PIPE,
                       stderr=subprocess.STDOUT, text=True)
    lines = [l for l in p.stdout.splitlines() if "conda" not in l]
    old = meta["checks"].get(c)
    if old and not old.get("detected") and "first_run" not in old:
        first = {"exit": old["exit"], "detected": False}
    else:
        first = (old or {}).get("first_run")
    meta["checks"][c] = {"exit": p.returncode, "detected": p.returncode == 1, "output": lines[:8]}
    if first:
        meta["checks"][c]["first_run"] = first
    meta["ran"].append(f"(re-run after strengthening) tools/mut.sh patch.diff {c} quick -> exit {p.returncode}")
if note:
    meta["strengthening"] = note
json.dump(meta, open(os.path.join(d, "meta.json"), "w"), indent=1)
print(sid, {c: meta["checks"][c]["detected"] for c in checks})
