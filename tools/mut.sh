#!/bin/sh
# tools/mut.sh <patch.diff | revert:<commit>> <Cxx> [quick|thorough]
# Applies a property-breaking change to a scratch worktree of /repo (never to /repo itself),
# runs the check against it (XV_REPO), prints the verdict lines and removes the worktree.
set -u
what="$1"; prop="$2"; tier="${3:-quick}"
here="$(cd "$(dirname "$0")/.." && pwd)"
wt="/var/tmp/xv-mut-$$"
out="/var/tmp/xv-mut-out-$$"
git -C /repo worktree add -q --detach "$wt" HEAD || exit 2
trap 'git -C /repo worktree remove --force "$wt" >/dev/null 2>&1; rm -rf "$out"' EXIT INT TERM
case "$what" in
  revert:*) (cd "$wt" && git revert -n "${what#revert:}" >/dev/null) || { echo "revert failed"; exit 2; } ;;
  *) (cd "$wt" && git apply "$what") || { echo "patch does not apply"; exit 2; } ;;
esac
cd "$here" && XV_REPO="$wt" XV_OUT="$out" ./check "$prop" "$tier" > "$out.log" 2>&1
rc=$?
grep -E "^(VIOLATION|KNOWN-FINDING|HARNESS-FAULT|C[0-9]+ )" "$out.log" | cut -c1-300 | head -${MUT_LINES:-6}
grep -E "^  what:" "$out.log" | head -3 | cut -c1-300
rm -f "$out.log"
echo "exit=$rc"
exit $rc
