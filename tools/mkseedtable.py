#!/venv/bin/python
"""Writes seeded/INDEX.md from the meta.json files (which checks catch which seeded change)."""
import glob
import json
import os

HERE = os.path.dirname(os.path.dirname(os.path.abspath(__file__)))
rows = []
for f in sorted(glob.glob(os.path.join(HERE, "seeded", "*", "meta.json"))):
    m = json.load(open(f))
    sid = os.path.basename(os.path.dirname(f))
    det = []
    for c, v in m["checks"].items():
        if v["detected"] and v.get("first_run") and not v["first_run"]["detected"]:
            det.append(f"{c}: caught after strengthening")
        else:
            det.append(f"{c}: {'caught' if v['detected'] else 'not caught'}")
    rows.append((sid, ", ".join(x.replace("xdeps/", "") for x in m["files_touched"]), m["needs"], "; ".join(det), m.get("strengthening", "")))
with open(os.path.join(HERE, "seeded", "INDEX.md"), "w") as fh:
    fh.write("# Seeded property-breaking changes (each confirmed: repository suite passes with it, its demonstration fails with it and passes without)\n\n")
    fh.write("| id | touches | what it needs in order to manifest | quick checks run against it | strengthening it prompted |\n|---|---|---|---|---|\n")
    for r in rows:
        fh.write("| " + " | ".join(x.replace("|", "\\|") for x in r) + " |\n")
print(len(rows), "rows")
