#!/bin/sh
# tools/confirm_batch.sh <round> <file>: every line "Cxx k needs text" of <file> is confirmed with tools/confirm_seed.py
# (properties in parallel, the three changes of one property one after the other: they share a scratch worktree)
rnd="$1"; f="$2"; cd "$(dirname "$0")/.." || exit 2
for p in $(cut -d' ' -f1 "$f" | sort -u); do
  ( grep "^$p " "$f" | while read -r prop k needs; do SEED_ROUND=$rnd tools/confirm_seed.py "$prop" "$k" "$needs" 2>&1 | grep -v conda; done ) &
done
wait
