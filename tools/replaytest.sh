#!/bin/sh
# tools/replaytest.sh <patch.diff> <Cxx>: the replay artefact of a violation must fail again on the changed tree and pass on the unchanged one
what="$1"; prop="$2"
here="$(cd "$(dirname "$0")/.." && pwd)"
wt="/var/tmp/xv-rt-$$"; out="/var/tmp/xv-rt-out-$$"
git -C /repo worktree add -q --detach "$wt" HEAD || exit 2
trap 'git -C /repo worktree remove --force "$wt" >/dev/null 2>&1; rm -rf "$out"' EXIT INT TERM
(cd "$wt" && git apply "$what") || exit 2
cd "$here"
XV_REPO="$wt" XV_OUT="$out" ./check "$prop" quick > "$out.log" 2>&1
f=$(grep -m1 "^VIOLATION" "$out.log" | sed 's/.*replay=//')
rm -f "$out.log"
[ -n "$f" ] || { echo "$prop: no violation produced"; exit 2; }
XV_REPO="$wt" ./check "$prop" --replay "$f" > /dev/null 2>&1; a=$?
./check "$prop" --replay "$f" > /dev/null 2>&1; b=$?
echo "$prop replay on changed tree: exit $a (want 1); on unchanged tree: exit $b (want 0)"
