#!/usr/bin/env python3
"""tools/mkround.py <round> [Cxx ...]: writes /tmp/seed/prompt-R<round>-<Cxx>.txt for a fresh sub-agent: the text of the
property, the mechanisms earlier seeded changes already used (from seeded/*/meta.json 'needs'), and the task.  Nothing
else from /verif goes into the prompt."""
import glob
import json
import os
import sys

HERE = os.path.dirname(os.path.dirname(os.path.abspath(__file__)))
rnd = sys.argv[1]
props = {json.loads(l)["id"]: json.loads(l) for l in open(os.path.join(HERE, "properties.jsonl"))}
want = sys.argv[2:] or sorted(props)
for pid in want:
    p = props[pid]
    used = []
    for m in sorted(glob.glob(os.path.join(HERE, "seeded", pid + "-*", "meta.json"))):
        meta = json.load(open(m))
        used.append(f"- ({', '.join(meta.get('files_touched', []))}) {meta['needs']}")
    wt = f"/tmp/seed/wt{rnd}-{pid}"
    out = f"/tmp/seed/out-R{rnd}-{pid}"
    txt = f"""You are helping to evaluate a verification harness for the Python library xsuite/xdeps (a push-model value-dependency
manager with expression references, a task graph with toposorted recomputation, a named-row Table and a Jacobian-based
matching optimizer).  Your job: write THREE independent, realistic changes to the library that each BREAK the property
below while the library still imports, (re)builds, and passes its existing test suite.

Your private scratch git worktree of the library is {wt} (work ONLY there; never touch /repo or /verif and do not read
/verif).  Python is /venv/bin/python.  xdeps/refs.py is compiled with Cython: an in-tree build is already present; after
ANY edit to xdeps/refs.py (or setup.py) rebuild with
    cd {wt} && /venv/bin/python setup.py build_ext --inplace --force >/dev/null 2>&1; rm -f xdeps/refs.c
otherwise the stale .so shadows your edit.  An installed copy of xdeps exists elsewhere, so EVERY program you write must
start with  import sys; sys.path.insert(0, "{wt}")  and then  import xdeps; assert xdeps.__file__.startswith("{wt}").
Test suite:  cd {wt} && /venv/bin/python -m pytest -q -p no:cacheprovider --timeout=900 tests
It must end with exactly "76 passed" and "1 failed" (tests/test_table.py::test_table_from_methods fails on the unchanged
tree too, that one is expected) both without and with each of your changes.

PROPERTY {pid}: {p['title']}
Statement: {p['statement']}
Quantifier: {p['quantifier']['text']}
Why the existing tests cannot settle it: {p['why_tests_cant']}
Code it is anchored in: {json.dumps(p['anchors'].get('files'))}; mechanisms: {json.dumps(p['anchors'].get('mechanism'))}

What a good change looks like:
* It is the kind of edit a maintainer could plausibly make (an optimisation, a cache, a refactor, a shortcut, an
  "obvious" simplification, a reordering, an off-by-one, a fast path), a few lines, in the library source (not tests).
* It needs something SPECIFIC to manifest: a multi-step sequence of operations, an unusual input or key, a particular
  state reached earlier (a cache filled, a query made before a mutation), a fault at a particular point, a particular
  hash seed / build mode, or two cooperating sites that each look fine alone.  NOT something ordinary use exposes at once.
* It genuinely violates the property as stated (not merely something nearby), on the real library.
* Each of the three uses a DIFFERENT mechanism and, as far as possible, touches a different clause of the property.

Mechanisms that earlier changes already used for this property — do NOT repeat these; find different sites, different
clauses, different triggering conditions:
{chr(10).join(used) if used else '- (none yet)'}

Deliverables, in {out}/ (create it), for k = 1, 2, 3:
* change<k>.diff — produced with `git -C {wt} diff > {out}/change<k>.diff` when ONLY change k is applied (then
  `git -C {wt} checkout -- .` before starting the next one; rebuild if refs.py was touched).  Each diff must apply
  with `git apply` on a clean checkout.
* demo<k>.py — a self-contained program (run as `cd {wt} && /venv/bin/python {out}/demo<k>.py`) that exits non-zero
  (assertion failure) WITH change k and exits 0 WITHOUT it.  It should demonstrate the violation of the property
  directly and say in a comment what is needed for it to manifest.
* notes.txt — for each k, two or three lines: what the change is, which clause of the property it breaks, what exactly
  it needs in order to manifest.
Before finishing, verify for every k yourself: suite with change = 76 passed / 1 failed; demo fails with, passes without.
Leave the worktree clean (git checkout -- . ; rebuild the extension if you had touched refs.py).  Reply with the contents of notes.txt.
"""
    open(f"/tmp/seed/prompt-R{rnd}-{pid}.txt", "w").write(txt)
    print(pid, len(used), "used mechanisms")
