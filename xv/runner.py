"""Entry point behind ./check: builds the working tree into a scratch
directory, runs the property's jobs in worker interpreters (one per
configuration), turns issues into replay artefacts, applies the committed
known-findings list, writes the evidence file and sets the exit code.

exit 0  property held on everything explored (known findings are printed)
exit 1  at least one VIOLATION line was printed
exit 2  harness fault (build failed, worker crashed, replay diverged)
"""
import ast
import hashlib
import importlib
import json
import os
import pickle
import subprocess
import sys
import tempfile
import time

from . import build

HERE = os.path.dirname(os.path.dirname(os.path.abspath(__file__)))
# self-test runs against a patched scratch copy (XV_REPO) write their evidence / replays elsewhere
OUT = os.environ.get("XV_OUT") or HERE
PY = build.PY
KNOWN_FILE = os.path.join(HERE, "known_findings.txt")
NCPU = os.cpu_count() or 4


def load_known():
    """open findings as {(property, finding_id): text}; fixed entries are
    parsed only to be listed in the evidence, they suppress nothing."""
    open_, fixed = {}, []
    try:
        with open(KNOWN_FILE) as fh:
            for line in fh:
                line = line.strip()
                if line.startswith("open:"):
                    toks = line.split()
                    prop = next((t.split("=", 1)[1] for t in toks if t.startswith("property=")), None)
                    fid = next((t.split("=", 1)[1] for t in toks if t.startswith("finding=")), None)
                    if prop and fid:
                        open_[(prop, fid)] = " ".join(t for t in toks[1:] if not t.startswith(("property=", "finding=")))
                elif line.startswith("fixed:"):
                    fixed.append(line)
    except FileNotFoundError:
        pass
    return open_, fixed


def run_jobs(sc, prop, jobs, log):
    """jobs: list of dicts(name, mode, hashseed, nproc, timeout, args).  Packs
    them onto the cores; returns list of result dicts in job order."""
    tmpd = tempfile.mkdtemp(prefix="jobs-", dir=sc.dir)
    pending = list(enumerate(jobs))
    running = []
    results = [None] * len(jobs)
    used = 0
    while pending or running:
        while pending and (used + min(pending[0][1].get("nproc", 1), NCPU) <= NCPU or not running):
            idx, job = pending.pop(0)
            jf = os.path.join(tmpd, f"job{idx}.pkl")
            of = os.path.join(tmpd, f"out{idx}.pkl")
            with open(jf, "wb") as fh:
                pickle.dump(job, fh)
            env = sc.env(job.get("mode", "compiled"), job.get("hashseed", 0), job.get("env"))
            lf = open(os.path.join(tmpd, f"log{idx}.txt"), "w")
            p = subprocess.Popen([PY, "-m", "xv.worker", prop, jf, of], env=env, cwd=HERE,
                                 stdout=lf, stderr=subprocess.STDOUT)
            n = min(job.get("nproc", 1), NCPU)
            used += n
            running.append((idx, job, p, of, lf, time.time(), n))
        time.sleep(0.05)
        still = []
        for ent in running:
            idx, job, p, of, lf, t0, n = ent
            rc = p.poll()
            if rc is None:
                if time.time() - t0 > job.get("timeout", 3600):
                    p.kill()
                    p.wait()
                    lf.close()
                    used -= n
                    results[idx] = {"error": f"job {job.get('name')} timed out after {job.get('timeout', 3600)} s",
                                    "timeout": True, "timeout_is_violation": bool(job.get("timeout_is_violation"))}
                else:
                    still.append(ent)
                continue
            lf.close()
            used -= n
            if rc != 0 or not os.path.exists(of):
                with open(lf.name) as fh:
                    tail = fh.read()[-3000:]
                results[idx] = {"error": f"job {job.get('name')} exited {rc}\n{tail}"}
            else:
                with open(of, "rb") as fh:
                    results[idx] = pickle.load(fh)
                with open(lf.name) as fh:
                    out = fh.read()
                if out.strip() and os.environ.get("XV_VERBOSE"):
                    log(f"--- {job.get('name')} output ---\n{out[-2000:]}")
        running = still
    return results


def write_replay(prop, issue):
    d = os.path.join(OUT, "replays", prop)
    os.makedirs(d, exist_ok=True)
    body = json.dumps(issue, indent=1, sort_keys=True, default=repr)
    h = hashlib.sha1(json.dumps([issue.get("what"), issue.get("case"), issue.get("config")],
                                sort_keys=True, default=repr).encode()).hexdigest()[:12]
    path = os.path.join(d, h + ".json")
    with open(path, "w") as fh:
        fh.write(body)
    return path


def validate_evidence(path):
    vt = "/opt/veriftools/pyvenv/bin/python"
    schema = "/root/.vp/EVIDENCE.schema.json"
    if not (os.path.exists(vt) and os.path.exists(schema)):
        return None
    code = ("import json,sys,jsonschema;"
            "jsonschema.validate(json.load(open(sys.argv[1])), json.load(open(sys.argv[2])))")
    p = subprocess.run([vt, "-c", code, path, schema], capture_output=True, text=True)
    return p.returncode == 0, p.stderr[-1500:]


def main(argv=None):
    argv = list(sys.argv[1:] if argv is None else argv)
    if not argv:
        print("usage: check <Cxx> quick|thorough | check <Cxx> --replay <file>")
        return 2
    prop = argv[0].upper()
    mod = importlib.import_module(f"xv.props.{prop.lower()}")
    seed = int(os.environ.get("VERIF_SEED", "0") or 0)
    if len(argv) >= 3 and argv[1] == "--replay":
        return replay(prop, mod, argv[2])
    tier = argv[1] if len(argv) > 1 else os.environ.get("VERIF_TIER", "quick")
    if tier not in ("quick", "thorough"):
        tier = "quick"
    t0 = time.time()

    def log(msg):
        print(msg, flush=True)

    plan = mod.plan(tier, seed)
    if tier == "quick":
        for j in plan["jobs"]:
            j["timeout"] = min(j.get("timeout", 3600), 1500)    # a hang must not hold the quick tier for an hour
    modes = sorted({j.get("mode", "compiled") for j in plan["jobs"]})
    try:
        with build.Scratch(modes) as sc:
            results = run_jobs(sc, prop, plan["jobs"], log)
            build_s, cache_hit = sc.build_s, sc.cache_hit
    except build.BuildError as e:
        print(f"HARNESS-FAULT property={prop} build failed: {e}")
        return 2
    errors = [r["error"] for r in results if r and r.get("error")]
    # a job may declare that ITS timeout is a finding (a search whose termination is the property); any other timeout is a harness fault
    def tiv(r):
        return bool(r.get("timeout") and r.get("timeout_is_violation"))
    hard = [r for r in results if r and r.get("error") and not tiv(r)]
    issues = []
    for r in results:
        if r and tiv(r):
            issues.append({"kind": "violation", "property": prop, "what": r["error"],
                           "case": {"timeout": True}, "config": {}})
    if hard:
        for e in errors:
            print(f"HARNESS-FAULT property={prop} {e}")
        return 2
    cov, more = mod.finish(plan, [r for r in results if r and not r.get("error")])
    issues.extend(more)
    open_known, fixed = load_known()
    viol, known = [], {}
    for it in issues:
        fid = it.get("finding")
        if it.get("kind") == "known" and (prop, fid) in open_known:
            known.setdefault(fid, []).append(it)
        else:
            viol.append(it)
    # distinct violations only (same 'what' + same case)
    seen = set()
    printed = 0
    for it in viol:
        key = json.dumps([it.get("what"), it.get("case")], sort_keys=True, default=repr)
        if key in seen:
            continue
        seen.add(key)
        path = write_replay(prop, it)
        if printed < 25:
            print(f"VIOLATION property={prop} replay={path}")
            print(f"  what: {it.get('what')}")
            for line in (it.get("program") or [])[:12]:
                print(f"    {line}")
            printed += 1
    if len(seen) > printed:
        print(f"  ... {len(seen) - printed} further distinct violations written under replays/{prop}/")
    for fid, its in sorted(known.items()):
        ex = its[0]
        prog = "; ".join(ex.get("program") or [])
        print(f"KNOWN-FINDING: property={prop} finding={fid}: {open_known[(prop, fid)]} "
              f"[{len(its)} occurrence(s) in this run, e.g. {prog}]")
    cov.setdefault("known_finding_occurrences", {k: len(v) for k, v in known.items()})
    cov.setdefault("fixed_findings_listed", [f for f in fixed if f"property={prop} " in f])
    cov["build"] = {"seconds": round(build_s, 2), "extension_cache_hit": cache_hit,
                    "source": build.REPO, "modes": modes}
    ev = {
        "property_id": prop,
        "tier": tier,
        "seed": seed,
        "level": plan["level"],
        "coverage": cov,
        "assumptions": plan.get("assumptions", []),
        "wall_s": round(time.time() - t0, 2),
        "violations": len(seen),
    }
    os.makedirs(os.path.join(OUT, "evidence"), exist_ok=True)
    epath = os.path.join(OUT, "evidence", f"{prop}.json")
    with open(epath, "w") as fh:
        json.dump(ev, fh, indent=1, sort_keys=True, default=repr)
    val = validate_evidence(epath)
    if val is not None and not val[0]:
        print(f"HARNESS-FAULT property={prop} evidence does not validate: {val[1]}")
        return 2
    summ = {k: cov[k] for k in ("states", "transitions", "traces_validated_against_impl",
                                "evaluations", "distinct_nontrivial", "exhaustive") if k in cov}
    print(f"{prop} {tier}: {summ} violations={len(seen)} known={sum(len(v) for v in known.values())} "
          f"wall={ev['wall_s']}s")
    return 1 if seen else 0


def replay(prop, mod, path):
    with open(path) as fh:
        issue = json.load(fh)
    cfg = issue.get("config") or {}
    job = {"name": "replay", "mode": cfg.get("mode", "compiled"), "hashseed": cfg.get("hashseed", 0),
           "nproc": 1, "args": {"replay": issue}, "timeout": 600}
    try:
        with build.Scratch([job["mode"]]) as sc:
            res = run_jobs(sc, prop, [job], print)[0]
    except build.BuildError as e:
        print(f"HARNESS-FAULT property={prop} build failed: {e}")
        return 2
    if res.get("error"):
        print(f"HARNESS-FAULT property={prop} {res['error']}")
        return 2
    if res.get("still_fails"):
        print(f"VIOLATION property={prop} replay={path}")
        print(f"  {res.get('what')}")
        return 1
    print(f"replay of {path}: no longer fails ({res.get('what', '')})")
    return 0


if __name__ == "__main__":
    sys.exit(main())
