"""C09 — solve() returns only on a matched point and otherwise restores the
knobs.  Exhaustive enumeration (engine E) of a finite configuration grid
(merit-function families x starts x limits x tolerances x knob/target weights
x n_steps_max x Broyden x disabled knobs/targets) plus fault enumeration: for
a sub-grid, EVERY call position of the user's action during solve() is made
to raise once.  Oracle: normal return => independent evaluation of the family
function at the knob values left in the container is within every active
tolerance (exact); exception => knobs and active flags equal log row 0."""
import itertools

from .. import enumerate as E
from .. import optsys as O
from . import common

LEVEL = "exploration"

KW_MIXED = (2.0, 0.5, 4.0, 3.0)
TW_MIXED = (3.0, 0.25, 2.0, 0.5, 1.5)


def starts(fam):
    nk = O.FAMILIES[fam]["nk"]
    a = [0.1] * nk
    b = [(0.6 if i % 2 == 0 else -0.3) for i in range(nk)]
    c = [2.0 - 0.5 * i for i in range(nk)]
    return [a, b, c]


def limit_settings(x0):
    return {
        "none": None,
        "wide": [(-5.0, 5.0)] * len(x0),
        "tight": [(x - 0.3, x + 0.2) for x in x0],          # solution generally outside
        "onesided": [(-1e200, x + 0.25) for x in x0],
    }


def grid(tier):
    fams = ["lin2", "lin3", "lin_tall", "lin_tall_inc", "lin_wide", "lin_rankdef", "lin_rankdef_inc", "sepquad", "dblroot",
            "coupled", "trig", "cubic", "atan"]
    if tier == "thorough":
        fams += ["lin1", "lin2skew", "lin4x5", "quad3", "bump"]
    tols = [1e-9, 1e-3, 0.0]
    nsms = [1, 20] if tier == "quick" else [1, 3, 20]
    broy = [False, True] if tier == "quick" else [False, True, 2]
    for fam in fams:
        F = O.FAMILIES[fam]
        for x0 in starts(fam):
            for lname, lim in limit_settings(x0).items():
                for tol in tols:
                    for kw in (None, KW_MIXED[:F["nk"]]):
                        for tw in (None, TW_MIXED[:F["nt"]]):
                            for nsm in nsms:
                                for br in broy:
                                    dis = [((), ())]
                                    if F["nk"] > 1:
                                        dis.append(((0,), ()))
                                    if F["nt"] > 1:
                                        dis.append(((), (0,)))
                                    for dv, dt in dis:
                                        yield {"fam": fam, "x0": x0, "limits": lim, "tol": tol, "kw": kw, "tw": tw, "nsm": nsm,
                                               "broyden": br, "dv": dv, "dt": dt, "lname": lname}
                                    if F["nk"] > 1 and not br:
                                        # a knob that was built inactive (so iteration 0 records it inactive) and enabled afterwards
                                        yield {"fam": fam, "x0": x0, "limits": lim, "tol": tol, "kw": kw, "tw": tw, "nsm": nsm,
                                               "broyden": br, "dv": (), "dt": (), "lname": lname, "v_inactive": (F["nk"] - 1,),
                                               "enable_v": (F["nk"] - 1,)}
    # failing solves that never travel: the start is (within 1e-12 of, or exactly) the least-squares point of an inconsistent
    # system, so the solver's last iterate is next to the iteration-0 knobs without being equal; also with a huge knob weight
    for x0, kw in (([2.0 + 3e-13], None), ([2.0 - 1e-13], None), ([2.0], None), ([2.0000004], (1e6,)), ([2.0 + 3e-13], (1e-3,))):
        for nsm in (1, 20):
            for br in (False, True):
                yield {"fam": "same_twice", "x0": x0, "limits": None, "tol": 1e-9, "kw": kw, "tw": None, "nsm": nsm, "broyden": br,
                       "dv": (), "dt": (), "lname": "none"}
    # limits that stop every knob just short of the solution while a finite-difference probe lands inside the tolerance
    for fam in ("lin1", "ident2", "ident3"):
        F = O.FAMILIES[fam]
        gain = 2.0 if fam == "lin1" else 1.0
        for tol in (1e-3, 1e-6):
            for frac in (0.75, 1.5):
                for kw in (None, KW_MIXED[:F["nk"]]):
                    for nsm in (1, 20):
                        x0 = [k - 1.0 for k in F["ksol"]]
                        lim = [(k - 5.0, k - frac * tol / gain) for k in F["ksol"]]
                        yield {"fam": fam, "x0": x0, "limits": lim, "tol": tol, "kw": kw, "tw": None, "nsm": nsm, "broyden": False,
                               "dv": (), "dt": (), "lname": f"short-of-solution-{frac}", "steps": tol}


def phase2_grid(tier):
    fams = ["lin2", "lin3", "sepquad", "coupled", "trig", "atan", "dblroot", "lin_tall"]
    for fam in fams:
        F = O.FAMILIES[fam]
        for x0 in starts(fam)[:2]:
            for x1 in starts(fam):
                if x1 == x0:
                    continue
                for lname in ("none", "wide"):
                    for tol in (1e-9, 1e-3):
                        for kw in (None, KW_MIXED[:F["nk"]]):
                            for br in (False, True):
                                yield {"fam": fam, "x0": x0, "limits": limit_settings(x0)[lname], "tol": tol, "kw": kw, "tw": None,
                                       "nsm": 20, "broyden": br, "dv": (), "dt": (), "lname": lname, "phase2": x1}
    # a target is disabled, a short first solve fails (its restore re-activates the target), then a full solve on the same object
    for fam in ("coupled", "trig", "sepquad", "lin_tall", "lin3"):
        F = O.FAMILIES[fam]
        for x0 in starts(fam)[:2]:
            for j in range(F["nt"]):
                for kw in (None, KW_MIXED[:F["nk"]]):
                    yield {"fam": fam, "x0": x0, "limits": None, "tol": 1e-9, "kw": kw, "tw": None, "nsm": 20, "broyden": False,
                           "dv": (), "dt": (j,), "lname": "none", "phase2": (), "phase2_flag": True, "phase1_steps": 1, "phase2_steps": 20}
    # the optimizer is re-used after the user changed tolerances or target values; knobs stay where the first solve left them
    # (phase2 = None-like: same knobs), with 0, 1 or 20 further steps
    for fam in fams:
        F = O.FAMILIES[fam]
        for x0 in starts(fam)[:2]:
            for tol1, tol2 in ((1e-3, 1e-9), (1e-2, 1e-6), (1e-9, 1e-3)):
                for dval in (0.0, 0.5):
                    for steps in (0, 1, 20):
                        for kw in (None, KW_MIXED[:F["nk"]]):
                            yield {"fam": fam, "x0": x0, "limits": None, "tol": tol1, "kw": kw, "tw": None, "nsm": 20, "broyden": False,
                                   "dv": (), "dt": (), "lname": "none", "phase2": (), "phase2_tol": tol2, "phase2_dval": dval,
                                   "phase2_steps": steps, "phase2_flag": True}


def fault_grid(tier):
    fams = ["lin2", "lin_tall_inc", "sepquad", "coupled", "trig", "cubic", "atan", "lin_rankdef"]
    for fam in fams:
        F = O.FAMILIES[fam]
        for x0 in starts(fam)[:2 if tier == "quick" else 3]:
            for lname in ("none", "tight"):
                lim = limit_settings(x0)[lname]
                for tol in (1e-9, 0.0):
                    for kw in (None, KW_MIXED[:F["nk"]]):
                        for dv in ((), (0,)) if F["nk"] > 1 else ((),):
                            yield {"fam": fam, "x0": x0, "limits": lim, "tol": tol, "kw": kw, "tw": None, "nsm": 4 if tier == "quick" else 8,
                                   "broyden": False, "dv": dv, "dt": (), "lname": lname}


def issue(spec, what, fail_at=None):
    prog = [f"problem: {O.spec_str(spec)}", f"opt.solve(broyden={spec.get('broyden', False)!r})"]
    if spec.get("phase2") or spec.get("phase2_flag"):
        prog = [prog[0], "opt.solve()   # first solve, any outcome", f"knobs moved by the user to {spec['phase2']!r}",
                f"target tolerances set to {spec.get('phase2_tol')!r}, target values shifted by {spec.get('phase2_dval', 0.0)!r}",
                f"opt.solve(n_steps={spec.get('phase2_steps', 1)}, broyden={spec.get('broyden', False)!r})"]
    if fail_at is not None:
        prog.insert(1, f"the user's action raises at its call #{fail_at} (counted from the start of solve())")
    return {"kind": "violation", "property": "C09", "finding": None, "what": what, "config": {}, "program": prog,
            "case": {"spec": repr(spec), "fail_at": fail_at}}


def run_solve(spec, fail_at=None):
    """returns (outcome, issue-or-None, ncalls during solve)"""
    p = O.Problem(spec)
    row0 = p.log_rows()[0]
    if spec.get("phase2") or spec.get("phase2_flag"):
        # the optimizer is re-used: a first solve (any outcome), then the user moves the knobs and solves again briefly
        try:
            if spec.get("phase1_steps") is not None:
                p.opt.solve(n_steps=spec["phase1_steps"])
            else:
                p.opt.solve()
        except Exception:  # noqa
            pass
        row0 = p.log_rows()[0]
        for i, v in enumerate(spec["phase2"]):
            p.knobs[f"k{i}"] = float(v)
        if spec.get("phase2_tol") is not None:
            # the user tightens / loosens the tolerances of the existing targets
            for i, t in enumerate(p.opt.targets):
                t.tol = spec["phase2_tol"]
            p.tols = [spec["phase2_tol"]] * p.nt
        if spec.get("phase2_dval"):
            # ... or moves the target values
            for i, t in enumerate(p.opt.targets):
                t.value = t.value + spec["phase2_dval"]
            p.tvals = [v + spec["phase2_dval"] for v in p.tvals]
    calls0 = p.calls
    if fail_at is not None:
        p.fail_at = calls0 + fail_at
    exc = None
    try:
        if spec.get("phase2") or spec.get("phase2_flag"):
            ret = p.opt.solve(n_steps=spec.get("phase2_steps", 1), broyden=spec.get("broyden", False))
        else:
            ret = p.opt.solve(broyden=spec.get("broyden", False))
    except Exception as e:  # noqa
        exc = e
    ncalls = p.calls - calls0
    k = p.knob_values()
    if exc is None:
        if fail_at is not None and fail_at < ncalls:
            return "ok", issue(spec, "the user's action raised during solve() but solve() returned normally", fail_at), ncalls
        if ret is not p.opt:
            return "ok", issue(spec, "solve() did not return the optimizer"), ncalls
        if not p.within_tol(k):
            vals = p.f(k)
            return "ok", issue(spec, f"solve() returned normally but at the knob values left in the container {k!r} the targets "
                                     f"{vals!r} are not all within tolerance of {p.tvals!r} (tol {p.tols!r}, active {p.target_flags()!r})",
                               fail_at), ncalls
        return "converged", None, ncalls
    # failure branch: restored to iteration 0
    unit = spec.get("kw") is None
    bad = []
    for i, (a, b) in enumerate(zip(k, row0["knobs"])):
        if (a != b) if unit else (O.ulps(a, b) > 2):
            bad.append(f"knob k{i} = {a!r}, iteration 0 recorded {b!r}")
    if p.vary_flags() != row0["vary_active"]:
        bad.append(f"vary active flags {p.vary_flags()!r}, iteration 0 recorded {row0['vary_active']!r}")
    if p.target_flags() != row0["target_active"]:
        bad.append(f"target active flags {p.target_flags()!r}, iteration 0 recorded {row0['target_active']!r}")
    if bad:
        return type(exc).__name__, issue(spec, f"solve() raised {type(exc).__name__} but did not restore iteration 0: " + "; ".join(bad), fail_at), ncalls
    return type(exc).__name__, None, ncalls


def job_grid(chunk):
    out = {"evaluations": 0, "issues": [], "outcomes": {}, "distinct": set()}
    for spec in chunk:
        oc, iss, n = run_solve(spec)
        out["evaluations"] += 1
        out["outcomes"][oc] = out["outcomes"].get(oc, 0) + 1
        out["distinct"].add((spec["fam"], tuple(spec["x0"]), spec["lname"], spec["tol"], spec["kw"] is None, oc))
        if iss and len(out["issues"]) < 20:
            out["issues"].append(iss)
    return out


def job_faults(chunk):
    out = {"fault_evaluations": 0, "fault_configs": 0, "issues": [], "fault_outcomes": {}, "fault_hit": 0}
    for spec in chunk:
        oc, iss, n = run_solve(spec)
        out["fault_configs"] += 1
        if iss:
            continue   # reported by the grid job
        for kf in range(n):
            oc2, iss2, n2 = run_solve(spec, fail_at=kf)
            out["fault_evaluations"] += 1
            out["fault_outcomes"][oc2] = out["fault_outcomes"].get(oc2, 0) + 1
            if oc2 not in ("converged", "ok"):
                out["fault_hit"] += 1
            elif iss2 is None:
                iss2 = issue(spec, f"the action raised at call #{kf} of {n} but solve() reported success", kf)
            if iss2 and len(out["issues"]) < 20:
                out["issues"].append(iss2)
    return out


def plan(tier, seed):
    return {"level": LEVEL,
            "jobs": [{"name": "grid", "mode": "pure", "hashseed": seed % 2 ** 32, "nproc": 10, "timeout": 3300, "args": {"tier": tier, "what": "grid"}},
                     {"name": "faults", "mode": "pure", "hashseed": seed % 2 ** 32, "nproc": 6, "timeout": 3300, "args": {"tier": tier, "what": "faults"}}],
            "assumptions": ["assert_within_tol=True and restore_if_fail=True (the defaults)",
                            "start points strictly inside the limits; merit functions never produce NaN",
                            "the optimizer module is pure Python: the extension-free copy of the working tree is imported"]}


def run_job(job):
    tier = job["args"]["tier"]
    if job["args"]["what"] == "grid":
        specs = list(grid(tier)) + list(phase2_grid(tier))
        r = E.pmap(job_grid, E.chunked(specs, 40), job.get("nproc", 1))
        r["distinct_n"] = len(r.get("distinct", ()))
        r.pop("distinct", None)
    else:
        specs = list(fault_grid(tier))
        r = E.pmap(job_faults, E.chunked(specs, 4), job.get("nproc", 1))
    r["what"] = job["args"]["what"]
    return r


def finish(plan_, results):
    issues = []
    cov = {"exhaustive": True}
    for r in results:
        issues.extend(r["issues"])
        if r["what"] == "grid":
            cov["grid_configurations"] = r["evaluations"]
            cov["grid_outcomes"] = common.jsonable(r.get("outcomes", {}))
            cov["grid_distinct"] = r["distinct_n"]
        else:
            cov["fault_configurations"] = r["fault_configs"]
            cov["fault_positions_executed"] = r["fault_evaluations"]
            cov["fault_outcomes"] = common.jsonable(r.get("fault_outcomes", {}))
    cov["evaluations"] = int(cov.get("grid_configurations", 0) + cov.get("fault_positions_executed", 0))
    cov["distinct_nontrivial"] = int(cov.get("grid_distinct", 0))
    cov["rule"] = ("full product of the stated grid, every configuration solved once; plus every action-call position of solve() failing once "
                   "on the fault sub-grid; distinct_nontrivial = distinct (family, start, limits, tol, weights, outcome) classes")
    cov["samples"] = [{"problem": O.spec_str(next(grid("quick"))), "call": "opt.solve()"},
                      {"problem": O.spec_str(next(fault_grid("quick"))), "fault": "action raises at call #k for every k"}]
    return cov, issues


def replay(issue):
    import ast
    case = issue["case"]
    spec = ast.literal_eval(case["spec"])
    oc, iss, n = run_solve(spec, fail_at=case.get("fail_at"))
    return {"still_fails": iss is not None, "what": iss["what"] if iss else f"ok ({oc})"}
