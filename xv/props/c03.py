"""C03 — removing or replacing a definition leaves no trace (history
independence).  Model checking: every register / unregister / assign / load /
refresh / cleanup history up to the depth bound; after every operation the
four indices are compared (by support) with a derivation from the surviving
tasks, verify() must pass, clone() must regenerate the same indices and every
query must answer like a fresh manager holding only the surviving
definitions.  Follow-up assignments are the next BFS level (each judged
against the reference model)."""
from .. import mgr
from .. import terms as T
from ..mgr import ManagerSystem, WORLDS, P
from . import common
from .c01 import replay_history

LEVEL = "model_checking"


def _loads(world):
    leaves = world["leaves"]
    out = []
    srcs = leaves
    for L in leaves[:4]:
        for X in srcs:
            if X != L:
                for ow in (True, False):
                    out.append(("load", ((L, mgr.tmpl("mul2", (X,))),), ow))
    # one two-definition dump: consumer listed before producer
    a, b, c = leaves[0], leaves[-1], leaves[-2]
    out.append(("load", ((b, mgr.tmpl("inc", (c,))), (c, mgr.tmpl("mul2", (a,)))), True))
    # one dump that lists the same target twice with different dependencies (base definitions followed by an override)
    out.append(("load", ((b, mgr.tmpl("mul2", (a,))), (b, mgr.tmpl("inc", (c,)))), True))
    out.append(("load", ((b, mgr.tmpl("mul2", (a,))), (b, mgr.tmpl("inc", (c,)))), False))
    return out


def alphabet(world, tier_full):
    cfg = {
        "values": (3,), "templates": ("mul2", "add") if tier_full else ("mul2",),
        "iops": (("add", ("lit", 1)),), "unreg": True,
        "extra": [("refresh",), ("cleanup",)] + _loads(world),
    }
    if tier_full:
        cfg["funs"] = tuple(world["funs"])
        cfg["knobs"] = tuple(world["knobs"])
    return cfg


def support(d):
    out = set()
    for k, v in d.items():
        for i in v:
            out.add((str(k), str(i)))
    return out


def derived_supports(tasks):
    """supports of the four indices derived from the surviving tasks' public
    taskid / targets / dependencies"""
    rdeps, rtasks, deptasks, tartasks = set(), set(), set(), set()
    items = [(str(tid), {str(x) for x in t.targets}, {str(x) for x in t.dependencies})
             for tid, t in tasks.items()]
    for tid, tg, dp in items:
        for d in dp:
            deptasks.add((d, tid))
            for t in tg:
                rdeps.add((d, t))
        for t in tg:
            tartasks.add((t, tid))
    for xid, xtg, _ in items:
        for tid, _, dp in items:
            if xtg & dp:
                rtasks.add((xid, tid))
    return {"rdeps": rdeps, "rtasks": rtasks, "deptasks": deptasks, "tartasks": tartasks}


def check_indices(m, label):
    want = derived_supports(m.tasks)
    probs = []
    for name in ("rdeps", "rtasks", "deptasks", "tartasks"):
        got = support(getattr(m, name))
        if got != want[name]:
            extra = sorted(got - want[name])[:3]
            missing = sorted(want[name] - got)[:3]
            probs.append(f"{label}{name}: stale {extra} missing {missing}")
    return probs


class System(ManagerSystem):
    prop = "C03"

    def locations(self):
        locs = list(self.world["leaves"]) + list(self.world.get("containers", {}))
        return locs

    def queries(self, w):
        out = {}
        for L in self.locations():
            r = w.ref(L)
            e = r._expr
            out[T.path_str(L)] = (
                None if e is None else str(e),
                sorted(str(x) for x in r._tasks),
                sorted(str(x) for x in r._find_dependant_targets()),
                sorted(str(x) for x in w.m.find_deps([r])),
            )
        return out

    def twin(self, w, ns):
        """fresh manager over the same contents with only the surviving
        definitions registered (in registration order)."""
        from ..world import World
        from xdeps.tasks import ExprTask, FunctionTask, LinearKnob
        spec = dict(self.world)
        spec["data"] = w.contents()
        tw = World(spec)
        for tid, t in ns.tasks.items():
            if t.kind == "E":
                tw.m.register(ExprTask(tw.ref(tid[1]), T.to_ref(t.term, tw.roots)))
            elif t.kind == "F":
                reads, writes, kind = self.world["funs"][tid[1]]
                tw.m.register(FunctionTask(tid[1], tw._mk_action(tid[1]),
                                           {tw.ref(p) for p in writes}, {tw.ref(p) for p in reads}))
            else:
                src, weights, targets = self.world["knobs"][tid[1]]
                k = LinearKnob(tid[1], tw.ref(src), list(weights), [tw.ref(p) for p in targets])
                tw.m.register(k)
        return tw

    def state_checks(self, w, ns, hist, op):
        issues = []
        m = w.m
        # definitions are what the model says survives
        got_defs = {str(k): str(getattr(t, "expr", type(t).__name__)) for k, t in m.tasks.items()}
        if set(got_defs) != {T.path_str(t[1]) if t[0] == "E" else t[1] for t in ns.tasks}:
            issues.append(self.issue("violation", hist, op, "set of registered tasks differs from the surviving definitions",
                                     {"tasks": sorted(got_defs)}))
            return issues
        # the current expression of every location is what the surviving definitions say (None for locations without one,
        # in particular for containers that merely enclose an expression-defined member)
        for L in self.locations():
            e = w.ref(L)._expr
            t = ns.tasks.get(("E", L))
            if t is None:
                if e is not None:
                    issues.append(self.issue("violation", hist, op, f"{T.path_str(L)} has no definition but its _expr is {e}"))
                    return issues
            else:
                want = T.to_ref(t.term, w.roots)
                if e is None or not (e == want):
                    issues.append(self.issue("violation", hist, op, f"_expr of {T.path_str(L)} is {e}, the surviving definition is {want}"))
                    return issues
        probs = check_indices(m, "")
        if probs:
            issues.append(self.issue("violation", hist, op, "index not derivable from the surviving tasks: " + probs[0],
                                     {"all": probs}))
        # queries vs a fresh manager
        try:
            q1 = self.queries(w)
            tw = self.twin(w, ns)
            q2 = self.queries(tw)
            if q1 != q2:
                bad = [k for k in q1 if q1[k] != q2[k]][0]
                issues.append(self.issue("violation", hist, op, f"query answers for {bad} differ from a fresh manager",
                                         {"manager": q1[bad], "fresh": q2[bad]}))
        except Exception as e:  # noqa
            issues.append(self.issue("violation", hist, op, f"query raised {type(e).__name__}: {e}"))
        # clone regenerates the same indices
        try:
            c = m.clone()
            probs = check_indices(c, "clone.")
            if list(map(str, c.tasks)) != list(map(str, m.tasks)):
                probs.append("clone.tasks differ")
            if probs:
                issues.append(self.issue("violation", hist, op, "clone(): " + probs[0]))
            # removing definitions in the clone leaves no trace in the original
            sig0 = [(str(k), sorted(map(str, t.dependencies)), sorted(map(str, t.targets))) for k, t in m.tasks.items()]
            for tid in list(c.tasks)[:3]:
                c.unregister(tid)
            sig1 = [(str(k), sorted(map(str, t.dependencies)), sorted(map(str, t.targets))) for k, t in m.tasks.items()]
            probs = check_indices(m, "") if sig0 == sig1 else [f"the original's tasks changed from {sig0!r} to {sig1!r}"]
            if probs:
                issues.append(self.issue("violation", hist, op, "unregistering in a clone() damaged the original manager: " + probs[0]))
        except Exception as e:  # noqa
            issues.append(self.issue("violation", hist, op, f"clone() raised {type(e).__name__}: {e}"))
        # the manager's own consistency check (destructive: runs cleanup)
        try:
            import io
            import contextlib
            with contextlib.redirect_stdout(io.StringIO()):
                m.verify()
        except Exception as e:  # noqa
            issues.append(self.issue("violation", hist, op, f"verify() raised {type(e).__name__}: {e}"))
        if not issues:
            issues.extend(self.failed_replacement(ns, hist, op))
        return issues

    def failed_replacement(self, ns, hist, op):
        """a replacement that FAILS: the new expression cannot be evaluated (one operand does not exist).  Which of the two
        definitions the manager keeps is not prescribed here; whatever tasks it then holds, its indices must follow from them and
        its self-check must pass, and once that location is given a plain value nothing may be left of either definition"""
        import io
        import contextlib
        issues = []
        full = tuple(hist) + (self.universe.index(op),)
        leaves = list(self.cfg.get("leaves") or self.world["leaves"])
        fk = mgr.task_regions(ns)
        cands = [L for L in leaves if ("E", L) in ns.tasks][:1] + [L for L in leaves if ("E", L) not in ns.tasks and not any(T.overlap(L, x) for x in fk)][:1]
        for L in cands:
            others = [X for X in leaves if X != L and not T.overlap(X, L)]
            if not others or ns.frozen:
                continue
            miss = ("bin", "add", ("loc", mgr.P("zz")), ("loc", others[-1]))
            w2 = self.replay(full)
            try:
                w2.apply(("def", L, miss))
                continue          # (no failure: nothing to check here)
            except Exception:  # noqa
                pass
            prog = f"{T.path_str(L)} = <expression reading the missing s['zz']> (raises)"
            probs = check_indices(w2.m, "")
            if probs:
                issues.append(self.issue("violation", hist, op, f"after the failed replacement {prog}, an index does not follow from the tasks the "
                                                                f"manager holds: {probs[0]}", {"all": probs[:4]}))
                return issues
            try:
                with contextlib.redirect_stdout(io.StringIO()):
                    w2.m.verify()
            except Exception as e:  # noqa
                issues.append(self.issue("violation", hist, op, f"after the failed replacement {prog}, verify() raised {type(e).__name__}: {e}"))
                return issues
            try:
                w2.apply(("set", L, 3))
                for X in leaves:
                    if ("E", X) not in ns.tasks and not any(T.overlap(X, y) for y in fk):
                        w2.apply(("set", X, 7))
            except Exception as e:  # noqa
                issues.append(self.issue("violation", hist, op, f"after the failed replacement {prog} and a plain value assigned to that location, "
                                                                f"a later assignment raised {type(e).__name__}: {e}"))
                return issues
            probs = check_indices(w2.m, "")
            if probs:
                issues.append(self.issue("violation", hist, op, f"after the failed replacement {prog} and a plain value assigned to that location: "
                                                                f"{probs[0]}"))
                return issues
        return issues


def plan(tier, seed):
    seeds = common.seeds_for(tier, seed, quick=(0, 1), thorough=(0, 1, 2, 3))
    jobs = []
    if tier == "quick":
        runs = [("W-nest", True, 2), ("W-nest-4", False, 3), ("W-flat", True, 2)]
    else:
        runs = [("W-nest", True, 3), ("W-nest-4", False, 4), ("W-flat", True, 3), ("W-mix", True, 2)]
    for hs in seeds:
        for wname, full, depth in runs:
            jobs.append({"name": f"bfs:{wname}:{'full' if full else 'reduced'}:d{depth}:seed{hs}",
                         "mode": "compiled", "hashseed": hs, "nproc": 4 if tier == "quick" else 8,
                         "timeout": 3000,
                         "args": {"world": wname, "full": full, "depth": depth, "time_cap": 1500}})
    return {"level": LEVEL, "jobs": jobs,
            "assumptions": [
                "indices are compared by support (keys with non-empty entries), not by counts",
                "follow-up assignments are covered as the next search level, each judged against the reference model",
                "clone() is checked as a query (same regenerated indices); refs keep pointing at the original manager by design",
            ]}


def run_job(job):
    a = job["args"]
    w = WORLDS[a["world"]]
    return common.run_bfs(System(w, alphabet(w, a["full"]), common.config_info(job)), job)


def finish(plan_, results):
    cov, issues = common.merge_bfs(results)
    cov["samples"] = [{"history": it["program"], "verdict": it["kind"], "what": it["what"]} for it in issues[:3]] or \
        [{"note": "no issue found", "checked_per_state": ["index supports vs derivation", "verify()", "clone()",
                                                        "_expr/_tasks/_find_dependant_targets/find_deps vs fresh manager"]}]
    cov["oracle"] = ("after every operation: supports of rdeps/rtasks/deptasks/tartasks == derivation from Manager.tasks; "
                     "verify() silent; clone() regenerates the same; queries == fresh manager; contents == reference model")
    return cov, issues


def replay(issue):
    return replay_history(System, issue)
