"""C07 — Table rows addressed by name resolve against the *current* index
column.  Model checking (engine H): every history of table-API mutations up
to the depth bound, interleaved with lookups (a lookup is an operation
because it builds the lazy name->row cache, which is state).  After every
operation, on an own replica of the reached state, every row designator
(name x count x offset, string and tuple forms) is resolved through
table[col,row], table[col,row]=..., rows.get_index and table // row and
compared with a linear scan of the current index column; the unique labels
reported by cols.get_index_unique()/show() must resolve to their own row."""
import ast

from .. import simple
from . import common

LEVEL = "model_checking"
NAMES = ("a", "b", "c")
ABSENT = "zz"
MAXROWS = 5          # short tables grow up to this many rows
PATTERN = ("c", "b", "a", "c", "b") * 8
KCOL = ("b", "b", "a", "c", "a") * 8


class Model:
    """Plain-Python picture of the table: columns as lists + index name."""

    def __init__(self, names):
        n = len(names)
        self.cols = {"name": list(names), "v": [10.0 * i for i in range(n)], "k": list(KCOL[:n])}
        self.order = ["name", "v", "k"]
        self.index = "name"

    def n(self):
        return len(self.cols[self.order[0]])

    def icol(self):
        return self.cols[self.index]


def resolve(col, name, count, offset):
    """linear-scan reference; returns position or None (KeyError expected)"""
    occ = [i for i, x in enumerate(col) if x == name]
    c = 0 if count is None else count
    if c < 0:
        c += len(occ)
    if 0 <= c < len(occ):
        return occ[c] + offset
    return None


def parse_row(row):
    """harness-side decomposition of a row designator used in operations"""
    if isinstance(row, tuple):
        name, count = row[0], row[1]
        off = row[2] if len(row) > 2 else 0
        return name, count, off
    name, count, off = row, None, 0
    if "<<" in name:
        name, o = name.split("<<")
        off = -int(o)
    elif ">>" in name:
        name, o = name.split(">>")
        off = int(o)
    if "::" in name:
        name, c = name.split("::")
        count = int(c)
    return name, count, off


ROWSELS = ["a", "b::1", ("a", 1), "a::-1", "b>>1", ("c", 0, -1), "c"]
PROBES = ["a", ABSENT, ("b", 0)]


def universe(tier, names=NAMES):
    ops = []
    for i in range(MAXROWS):
        for nm in names:
            ops.append(("cell", i, nm))
    n0 = names[0]
    rowsels = ROWSELS if names == NAMES else [n0, f"{n0}::1", (n0, 1), f"{n0}::-1", f"{names[1]}>>1", (names[-1], 0, -1), names[-1]]
    for rs in rowsels:
        for nm in (names if tier == "thorough" else names[:2]):
            ops.append(("cellby", rs, nm))
    ops += [("col", "pattern"), ("col", "const"), ("attr", "pattern"), ("attr", "const"), ("rot",),
            ("vcell", 0), ("newcol",), ("delcol", "w"), ("popcol", "k"),
            ("append", names[0]), ("append", names[-1]), ("index", "k"), ("index", "name"),
            ("cellk", 0, names[0]), ("cellk", 1, names[-1]), ("colfrom", "k"),
            ("delidx", "del"), ("delidx", "pop"), ("readd", "item"), ("readd", "attr")]
    # several cells of the index column at once: position slices, a position list, a boolean mask
    for nm in names[:2]:
        ops += [("cells", ("slice", 0, 2, None), nm), ("cells", ("slice", 1, None, None), nm), ("cells", ("slice", None, None, 2), nm),
                ("cells", ("list", (0, 2)), nm), ("cells", ("mask",), nm)]
    ops += [("probe", p) for p in (PROBES if names == NAMES else [names[0], ABSENT, (names[1], 0)])]
    ops += [("labels",)]
    return ops


def cells_positions(sel, n):
    if sel[0] == "slice":
        return list(range(n))[slice(sel[1], sel[2], sel[3])]
    if sel[0] == "list":
        return list(sel[1])
    return [i for i in range(n) if i % 2 == 0]


class System(simple.SimpleSystem):
    prop = "C07"

    def __init__(self, init, tier, config_info=None, variant=""):
        super().__init__(config_info)
        self.init = tuple(init)
        self.variant = variant
        self.name = "table:" + ",".join(init) + (("/" + variant) if variant else "")
        # the name alphabet of this system: the three standard names, or the names of the initial column when they are special
        self.names = NAMES if set(init) <= set(NAMES) else tuple(dict.fromkeys(init))
        self.universe = universe(tier, self.names)
        # names that do not occur: a plain one, and for the look-alike system names that only match another entry when they
        # are (wrongly) read as a case-insensitive regular expression
        self.absent = (ABSENT,) if "mq.a" not in self.names else (ABSENT, "MQ.A", "iP", "m..a", "d1|ip")

    # ---- real side
    def build(self):
        import numpy as np
        from xdeps import Table
        m = Model(self.init)
        if self.names != NAMES:
            m.cols["k"] = [self.names[(i * 2 + 1) % len(self.names)] for i in range(m.n())]
        if self.variant == "U":
            # fixed-width numpy string columns kept as they are (cast_strings=False)
            t = Table({"name": np.array(m.cols["name"], dtype="U1"), "v": np.array(m.cols["v"], dtype=float),
                       "k": np.array(m.cols["k"], dtype="U1")}, cast_strings=False)
        else:
            t = Table({"name": np.array(m.cols["name"], dtype=object) if m.n() else np.array([], dtype=object),
                       "v": np.array(m.cols["v"], dtype=float),
                       "k": np.array(m.cols["k"], dtype=object)})
        return {"t": t, "m": m}

    def enabled(self, live, hist):
        m = live["m"]
        n = m.n()
        out = []
        missing = m.index not in m.cols
        for i, op in enumerate(self.universe):
            k = op[0]
            if missing and k not in ("readd", "vcell", "newcol", "delcol"):
                continue      # the index column was deleted: only re-adding it (or touching other columns) makes sense
            if k == "readd" and not missing:
                continue
            if k == "delidx" and (n == 0 or len(m.cols) < 2):
                continue
            if k == "cell" and op[1] >= n:
                continue
            if k == "cells" and (n == 0 or (op[1][0] == "list" and max(op[1][1]) >= n)):
                continue
            if k in ("vcell", "cellk") and (op[1] >= n or (k == "cellk" and "k" not in m.cols)):
                continue
            if k == "append" and (n >= MAXROWS and n < 10 or n >= len(self.init) + 2 and n >= 10):
                continue
            if k == "delcol" and op[1] not in m.cols:
                continue
            if k == "popcol" and (op[1] not in m.cols or m.index == op[1]):
                continue
            if k == "index" and (op[1] not in m.cols or m.index == op[1]):
                continue
            if k == "colfrom" and (op[1] not in m.cols or m.index == op[1] or n == 0):
                continue
            if k == "cellby":
                name, count, off = parse_row(op[1])
                pos = resolve(m.icol(), name, count, off)
                if pos is not None and not (0 <= pos < n):
                    continue   # offsets landing outside the table are not generated
            if k in ("col", "attr", "rot") and n == 0:
                continue
            out.append(i)
        return out

    def apply(self, live, op):
        import numpy as np
        t, m = live["t"], live["m"]
        live["expect"] = None
        k = op[0]
        n = m.n()
        if k == "cell":
            t[m.index, op[1]] = op[2]
            m.icol()[op[1]] = op[2]
        elif k == "cellk":
            t["k", op[1]] = op[2]
            m.cols["k"][op[1]] = op[2]
        elif k == "cells":
            sel = op[1]
            key = slice(sel[1], sel[2], sel[3]) if sel[0] == "slice" else (list(sel[1]) if sel[0] == "list" else np.array([i % 2 == 0 for i in range(n)]))
            t[m.index, key] = op[2]
            for pos in cells_positions(sel, n):
                m.icol()[pos] = op[2]
        elif k == "cellby":
            name, count, off = parse_row(op[1])
            pos = resolve(m.icol(), name, count, off)
            live["expect"] = "KeyError" if pos is None else None
            t[m.index, op[1]] = op[2]
            if pos is not None:
                m.icol()[pos] = op[2]
        elif k in ("col", "attr"):
            pat = PATTERN if self.names == NAMES else tuple(self.names[(i * 2) % len(self.names)] for i in range(40))
            if op[1] == "pattern":
                val = np.array(pat[:n], dtype=object)
                new = list(pat[:n])
            else:
                val = self.names[0]
                new = [self.names[0]] * n
            if k == "col":
                t[m.index] = val
            else:
                setattr(t, m.index, val)
            m.cols[m.index] = new
        elif k == "colfrom":
            # the whole index column replaced by the array of ANOTHER column of the same table (which stays a live column)
            t[m.index] = t[op[1]]
            m.cols[m.index] = list(m.cols[op[1]])
        elif k == "rot":
            t[m.index] = np.roll(t[m.index], 1)
            c = m.icol()
            m.cols[m.index] = c[-1:] + c[:-1]
        elif k == "vcell":
            t["v", op[1]] = t["v", op[1]] + 1.0
            m.cols["v"][op[1]] += 1.0
        elif k == "newcol":
            t["w"] = np.arange(n) * 1.0
            if "w" not in m.cols:
                m.order.append("w")
            m.cols["w"] = [1.0 * i for i in range(n)]
        elif k == "delcol":
            del t[op[1]]
            del m.cols[op[1]]
            m.order.remove(op[1])
        elif k == "popcol":
            t.pop(op[1])
            del m.cols[op[1]]
            m.order.remove(op[1])
        elif k == "append":
            row = {c: (op[1] if c in ("name", "k") else 100.0 + n) for c in m.order}
            t._append_row(row)
            for c in m.order:
                m.cols[c].append(row[c])
        elif k == "index":
            t._index = op[1]
            m.index = op[1]
        elif k == "delidx":
            if op[1] == "del":
                del t[m.index]
            else:
                t.pop(m.index)
            del m.cols[m.index]
            m.order.remove(m.index)
        elif k == "readd":
            n = len(m.cols[m.order[0]])
            pat = PATTERN if self.names == NAMES else tuple(self.names[(i * 2) % len(self.names)] for i in range(40))
            val = np.array((pat + pat)[1:n + 1], dtype=object)
            if op[1] == "item":
                t[m.index] = val
            else:
                setattr(t, m.index, val)
            m.cols[m.index] = list((pat + pat)[1:n + 1])
            m.order.append(m.index)
        elif k == "labels":
            # a query: the unique row labels (it may fill a cache of its own)
            live["labels_seen"] = [str(x) for x in t.cols.get_index_unique()]
            if n:
                t.show(output=str, maxwidth="full")
        elif k == "probe":
            name, count, off = parse_row(op[1])
            pos = resolve(m.icol(), name, count, off)
            live["expect"] = "KeyError" if pos is None else None
            return t["v", op[1]]
        else:
            raise ValueError(op)

    def canon(self, live):
        """every attribute of the table (columns, column list, index, the lazily built caches and anything a change to the
        library may add), so that histories are never merged while a cache differs"""
        t = live["t"]
        extra = []
        for k in sorted(t.__dict__):
            if k in ("rows", "cols", "_data", "_col_names"):
                continue
            v = t.__dict__[k]
            if isinstance(v, dict):
                v = sorted(((repr(a), repr(b)) for a, b in v.items()))
            elif hasattr(v, "tolist"):
                v = [str(x) for x in v.tolist()]
            extra.append((k, repr(v)))
        return simple.digest((list(t._col_names), [(c, [repr(x) for x in t._data[c]]) for c in sorted(t._data)], extra))

    def op_str(self, op):
        k = op[0]
        if k == "cell":
            return f"t[t._index, {op[1]}] = {op[2]!r}"
        if k == "cellk":
            return f"t['k', {op[1]}] = {op[2]!r}"
        if k == "cells":
            sel = op[1]
            key = f"slice({sel[1]}, {sel[2]}, {sel[3]})" if sel[0] == "slice" else (repr(list(sel[1])) if sel[0] == "list" else "<mask of the even rows>")
            return f"t[t._index, {key}] = {op[2]!r}"
        if k == "cellby":
            return f"t[t._index, {op[1]!r}] = {op[2]!r}"
        if k in ("col", "attr"):
            val = "'a'" if op[1] == "const" else f"np.array({list(PATTERN)!r}[:len(t)], dtype=object)"
            return f"t[t._index] = {val}" if k == "col" else f"setattr(t, t._index, {val})"
        if k == "colfrom":
            return f"t[t._index] = t[{op[1]!r}]"
        if k == "rot":
            return "t[t._index] = np.roll(t[t._index], 1)"
        if k == "vcell":
            return f"t['v', {op[1]}] += 1"
        if k == "newcol":
            return "t['w'] = np.arange(len(t)) * 1.0"
        if k == "delcol":
            return f"del t[{op[1]!r}]"
        if k == "popcol":
            return f"t.pop({op[1]!r})"
        if k == "append":
            return f"t._append_row({{every string column: {op[1]!r}, every float column: 100.0 + len(t)}})"
        if k == "index":
            return f"t._index = {op[1]!r}"
        if k == "delidx":
            return "del t[t._index]" if op[1] == "del" else "t.pop(t._index)"
        if k == "readd":
            v = f"np.array({list((PATTERN + PATTERN)[1:])!r}[:len(t)], dtype=object)"
            return f"t[t._index] = {v}" if op[1] == "item" else f"setattr(t, t._index, {v})"
        if k == "probe":
            return f"t['v', {op[1]!r}]   # lookup (builds the cache)"
        if k == "labels":
            return "t.cols.get_index_unique(); t.show(output=str)   # query"
        return repr(op)

    # ---- oracles
    def transition(self, live, op, obs, exc, hist, mk):
        t, m = live["t"], live["m"]
        issues = []
        expect = live.pop("expect", None)
        if expect == "KeyError":
            if not isinstance(exc, KeyError):
                issues.append(self.issue(hist, op, f"expected KeyError (no such occurrence in the current index column "
                                                   f"{m.icol()!r}), got {type(exc).__name__ if exc else 'a result: ' + repr(obs)}"))
        elif exc is not None:
            issues.append(self.issue(hist, op, f"unexpected {type(exc).__name__}: {exc}"))
        elif op[0] == "probe":
            name, count, off = parse_row(op[1])
            pos = resolve(m.icol(), name, count, off)
            if obs != m.cols["v"][pos]:
                issues.append(self.issue(hist, op, f"lookup returned {obs!r}, the current index column {m.icol()!r} "
                                                   f"puts that row at position {pos} (v = {m.cols['v'][pos]!r})"))
        if issues:
            return issues
        # the table's columns are what the model says (cell writes landed on the right row)
        for c in m.order:
            got = list(t._data[c])
            if got != m.cols[c] or c not in t._col_names:
                issues.append(self.issue(hist, op, f"column {c!r} is {got!r}, expected {m.cols[c]!r}"))
                break
        return issues

    def state(self, mk_child, hist, op):
        live = mk_child()
        t, m = live["t"], live["m"]
        if m.index not in m.cols:
            return []     # index column currently deleted: nothing to resolve against
        col = m.icol()
        n = m.n()
        v = m.cols["v"]
        issues = []
        stats_checked = 0

        def bad(what):
            issues.append(self.issue(hist, op, what, {"index_column": list(col), "index": m.index}))

        # the unique labels FIRST, before any by-name lookup refreshes a cache: name if it occurs once, else name::k
        cnt = {}
        for x in col:
            cnt[x] = cnt.get(x, 0) + 1
        seen = {}
        want_labels = []
        for x in col:
            k_ = seen.get(x, 0)
            seen[x] = k_ + 1
            want_labels.append(str(x) if cnt[x] == 1 else f"{x}::{k_}")
        got_labels = [str(x) for x in t.cols.get_index_unique()]
        if got_labels != want_labels:
            bad(f"get_index_unique() reports {got_labels!r}; the current index column {col!r} gives {want_labels!r}")
            return issues
        if n:
            shown = [ln.split()[0] for ln in t.show(output=str, maxwidth="full").split("\n")[1:]]
            if shown != want_labels:
                bad(f"show() prints row labels {shown!r}; the current index column {col!r} gives {want_labels!r}")
                return issues

        maxc = max(3, max(cnt.values(), default=0) + 1)
        for name in tuple(self.names) + tuple(self.absent):
            for count in (None,) + tuple(range(-maxc, maxc + 1)):
                for off in (0, -1, 1):
                    pos = resolve(col, name, count, off)
                    if pos is not None and not (0 <= pos < n):
                        continue
                    forms = []
                    if count is None:
                        if off == 0:
                            forms += [name, (name, None)]
                        elif off < 0:
                            forms += [f"{name}<<{-off}", f"{name}>>{off}"]
                        else:
                            forms += [f"{name}>>{off}", f"{name}<<{-off}"]
                    else:
                        if off == 0:
                            forms += [f"{name}::{count}", (name, count), f"{name}::{count}<<0"]
                        elif off < 0:
                            forms += [f"{name}::{count}<<{-off}"]
                        else:
                            forms += [f"{name}::{count}>>{off}"]
                        forms.append((name, count, off))
                    for form in forms:
                        for api in ("get", "get_index", "floordiv", "set"):
                            stats_checked += 1
                            try:
                                if api == "get":
                                    r = t["v", form]
                                    ok = pos is not None and r == v[pos]
                                elif api == "get_index":
                                    r = t.rows.get_index(form)
                                    ok = pos is not None and r == pos
                                elif api == "floordiv":
                                    r = t // form
                                    ok = pos is not None and r == pos
                                else:
                                    t["v", form] = 777.0
                                    now = list(t._data["v"])
                                    r = now
                                    ok = pos is not None and now == v[:pos] + [777.0] + v[pos + 1:]
                                    t._data["v"][:] = v   # put the probe column back (not the index column)
                                if not ok:
                                    exp = "KeyError" if pos is None else f"row {pos}"
                                    bad(f"{api} with row {form!r} gave {r!r}; the index column {col!r} defines {exp}")
                            except KeyError:
                                if pos is not None:
                                    bad(f"{api} with row {form!r} raised KeyError; the index column {col!r} defines row {pos}")
                            if len(issues) >= 2:
                                return issues
        # unique labels resolve to their own row, and are what show() prints
        labels = list(t.cols.get_index_unique())
        if len(labels) != n:
            bad(f"get_index_unique() has {len(labels)} labels for {n} rows")
            return issues
        for i, lab in enumerate(labels):
            stats_checked += 1
            try:
                p = t.rows.get_index(lab)
                r = t["v", lab]
            except KeyError:
                bad(f"unique label {lab!r} of row {i} does not resolve (KeyError)")
                break
            if p != i or r != v[i]:
                bad(f"unique label {lab!r} of row {i} resolves to row {p}")
                break
        if n and not issues:
            txt = t.show(output=str, maxwidth="full")
            shown = [ln.split()[0] for ln in txt.split("\n")[1:]]
            if shown != [str(x) for x in labels]:
                bad(f"show() prints row labels {shown!r}, get_index_unique() gives {labels!r}")
        if n and not issues:
            # repr(table) is show() too: all rows below 30, the first and the last ten from 30 rows on
            lines = repr(t).split("\n")[2:]
            shown = [ln.split()[0] for ln in lines if ln != "..."]
            want = want_labels if n < 30 else want_labels[:10] + want_labels[-10:]
            if shown != want:
                bad(f"repr(table) prints row labels {shown!r}; the current index column gives {want!r}")
        if n and not issues:
            issues.extend(self.derived(t, col, hist, op))
        if n and not issues and self.names == NAMES:
            issues.extend(self.show_rows(t, col, want_labels, hist, op))
        return issues

    def derived(self, t, col, hist, op):
        """tables the API derives from the current one (after the lookups above have filled its caches) resolve names against
        THEIR OWN index column"""
        out = []
        for what, mk, dcol in (("t * 2", lambda: t * 2, list(col) * 2), ("t + t", lambda: t + t, list(col) * 2),
                               ("t._copy()", lambda: t._copy(), list(col)),
                               ("t.rows[::-1]", lambda: t.rows[::-1], list(col)[::-1])):
            d = mk()
            if [str(x) for x in d._data[d._index]] != [str(x) for x in dcol]:
                continue      # the shape of derived tables is C14's subject
            cnt = {}
            for x in dcol:
                cnt[x] = cnt.get(x, 0) + 1
            for name in tuple(self.names) + (ABSENT,):
                top = cnt.get(name, 0) + 1
                for count in (None,) + tuple(range(-top, top + 1)):
                    pos = resolve(dcol, name, count, 0)
                    form = name if count is None else f"{name}::{count}"
                    try:
                        r = d.rows.get_index(form)
                        ok = pos is not None and r == pos
                    except KeyError:
                        r, ok = "KeyError", pos is None
                    if not ok:
                        exp = "KeyError" if pos is None else f"row {pos}"
                        out.append(self.issue(hist, op, f"on d = {what}: d.rows.get_index({form!r}) gave {r!r}; the index column of d "
                                                        f"{dcol!r} defines {exp}", {"index_column": list(col)}))
                        return out
        return out

    def show_rows(self, t, col, want_labels, hist, op):
        """show(rows=selector) prints the labels of the selected rows.  On the pinned tree it indexes the label array with
        positions relative to the SELECTED view (recorded known finding show-rows-labels): recognised exactly, anything else
        is a violation."""
        out = []
        n = len(col)
        sels = [(nm, [i for i, x in enumerate(col) if x == nm]) for nm in self.names if nm in col]
        # (a list given to show(rows=...) is a chain of selectors, not a position list: not used here)
        sels += [(slice(1, None), list(range(1, n))), (slice(-2, None), list(range(n))[-2:])]
        for sel, pos in sels:
            if not pos:
                continue
            want = [want_labels[i] for i in pos]
            shown = [ln.split()[0] for ln in t.show(rows=sel, output=str, maxwidth="full").split("\n")[1:]]
            if shown == want:
                continue
            # the recorded defect: labels taken at the positions the selector has INSIDE the selected view
            k = len(pos)
            defect = [want_labels[i] for i in range(k)] if isinstance(sel, str) else None
            if defect is not None and shown == defect:
                out.append(self.issue(hist, op, f"show(rows={sel!r}) prints row labels {shown!r}; the selected rows are {want!r}",
                                      {"index_column": list(col)}, kind="known", finding="show-rows-labels"))
            else:
                out.append(self.issue(hist, op, f"show(rows={sel!r}) prints row labels {shown!r}; the selected rows of the current "
                                                f"index column {col!r} are {want!r}", {"index_column": list(col)}))
            return out
        return out


LONG = tuple("abcabacbbacabcaabcbbca")      # 21 rows, every name repeated (sorting-based cache builds need > 16 rows to go wrong)
SPECIAL = ("m:1", "m", "p>q", "m:1")       # names with a lone ':' / '>' (the separators are '::', '<<', '>>')
LOOKALIKE = ("mqxa", "mq.a", "IP", "ip", "mq.a", "d1", "d[1]")   # names that match ANOTHER entry when read as a case-insensitive regex
BIG = tuple("abcabacbbacabcaabcbbcaabcacbbacca")       # 33 rows: repr() prints the first and the last ten
INITS_QUICK = [(), ("a",), ("a", "b", "a"), LONG, SPECIAL, ("a", "b", "a", "U"), LOOKALIKE, BIG]
INITS_THOROUGH = [(), ("a",), ("a", "b", "a"), ("b", "a", "a", "b"), ("a", "a"), LONG, tuple("ccbbaacbacbacbaabbccabcabc"),
                  SPECIAL, ("m", "p>q", "m:1"), ("a", "b", "a", "U"), ("b", "a", "a", "b", "U"), LOOKALIKE, BIG]


def plan(tier, seed):
    jobs = []
    inits = INITS_QUICK if tier == "quick" else INITS_THOROUGH
    depth = 4 if tier == "quick" else 5
    for init in inits:
        variant = ""
        if init and init[-1] == "U":
            init, variant = init[:-1], "U"
        d_ = depth if len(init) < 10 else (2 if tier == "quick" else 3)
        if tier != "quick" and 2 < len(init) < 10:
            d_ = 4      # depth 5 only from the tables of at most two rows (the alphabet has some sixty operations)
        if variant or not set(init) <= set(NAMES):
            d_ = min(d_, 3)
        if init == LOOKALIKE:
            d_ = 2 if tier == "quick" else 3      # six names: the alphabet has some ninety operations
        jobs.append({"name": f"bfs:{''.join(init) or 'empty'}{variant}:d{d_}", "mode": "pure", "hashseed": seed % 2 ** 32,
                     "nproc": 5 if tier == "quick" else 16, "timeout": 3300,
                     "args": {"init": init, "tier": tier, "depth": d_, "time_cap": 2400, "variant": variant}})
    return {"level": LEVEL, "jobs": jobs,
            "assumptions": ["row names avoid the separator substrings '::', '<<', '>>' (names with a lone ':' or '>' are included)",
                            "offsets are only generated when they land inside the table",
                            "table.py is pure Python: the extension-free copy of the working tree is imported"]}


def run_job(job):
    a = job["args"]
    s = System(a["init"], a["tier"], common.config_info(job), a.get("variant", ""))
    return common.run_bfs(s, job)


def finish(plan_, results):
    cov, issues = common.merge_bfs(results)
    cov["samples"] = [{"history": it["program"], "what": it["what"]} for it in issues[:3]] or [
        {"history": ["t['v', 'a']   # lookup (builds the cache)", "t[t._index, 0] = 'c'", "t._append_row(...)"],
         "then": "every (name, count, offset) designator in string/tuple form through get/set/get_index/floordiv vs linear scan"}]
    cov["oracle"] = "linear scan of the current index column; KeyError exactly when the occurrence does not exist"
    return cov, issues


def replay(issue):
    ops = [ast.literal_eval(s) for s in issue["ops"]]
    sysname = issue["case"]["system"].split(":", 1)[1]
    variant = ""
    if sysname.endswith("/U"):
        sysname, variant = sysname[:-2], "U"
    init = tuple(x for x in sysname.split(",") if x)
    s = System(init, "thorough", issue.get("config"), variant)
    s.universe = ops
    hist = tuple(range(len(ops) - 1))
    r = s.expand(hist) if False else None
    live = s.replay(hist)
    exc = obs = None
    try:
        obs = s.apply(live, ops[-1])
    except Exception as e:  # noqa
        exc = e
    found = s.transition(live, ops[-1], obs, exc, hist, None)
    if not found:
        h2 = tuple(range(len(ops)))
        found = s.state(lambda: s.replay(h2), hist, ops[-1])
    return {"still_fails": bool(found), "what": found[0]["what"] if found else "ok"}
