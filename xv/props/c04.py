"""C04 — deferred expressions evaluate to what Python computes on the operand
values.  Exhaustive enumeration (engine E): every operator x operand form x
ordered value pair of a stated domain; every unary operator / builtin; calls;
item / attribute access with constant and computed keys; every in-place
operator x target state x operand form through a Manager; all expression
trees of depth 2 (full operator set) and depth 3 (representative operators)
over reduced domains.  Oracle: the same Python operator applied to the plain
values — equal value AND type, or the same exception type; / // % by zero
give NaN."""
import itertools
import math
import warnings

from .. import enumerate as E
from .. import terms as T
from . import common

LEVEL = "exploration"

A = ("s", ("i", "a"))
B = ("s", ("i", "b"))
C = ("s", ("i", "c"))


def domain(np):
    ints = [0, 1, -1, 2, 7, 13, -3]
    floats = [0.0, 0.5, -2.5, 1e10, 1e200]      # 1e200: squares / products leave the float range (Python raises or gives inf)
    bools = [True, False]
    cplx = [1 + 2j]
    nps = [np.float64(1.5), np.int64(3)]
    arrs = [np.array([1.0, 2.0]), np.array([[1, 2], [3, 4]])]
    return ints + floats + bools + cplx + nps + arrs


def is_pynum(v):
    return type(v) in (int, float, bool, complex)


def vrepr(v):
    return f"{type(v).__name__}:{v!r}".replace("\n", " ")


class Env:
    def __init__(self):
        import xdeps
        self.data = {"a": 0, "b": 0, "c": 0, "i": 0, "k": "x", "l": [10, 20.5, -3], "d": {"x": 1.5, "y": 2},
                     "o": T.PObj(p=7, q=-2.5)}
        self.m = xdeps.Manager()
        self.funcs = T.Funcs()
        self.roots = {"s": self.m.ref(self.data, "s"), "f": self.m.ref(self.funcs, "f")}
        self.plain = {"s": self.data, "f": self.funcs}

    def real(self, term):
        return E.outcome(lambda: T.to_ref(term, self.roots)._get_value())

    def model(self, term):
        return E.outcome(lambda: T.ev(term, self.plain))


def agree(o1, o2):
    if o1[0] != o2[0]:
        return False
    if o1[0] != "ok":
        return True
    return T.same(o1[1], o2[1])


def describe(o):
    return o[0] if o[0] != "ok" else vrepr(o[1])


class Tally:
    def __init__(self, section):
        self.section = section
        self.ev = 0
        self.distinct = set()
        self.issues = []
        self.outcomes = {}
        self.samples = []

    def check(self, env, term, label, setup):
        """setup: dict of location key -> value; evaluates real and model"""
        env.data.update(setup)
        r = env.real(term)
        mo = env.model(term)
        self.ev += 1
        kind = mo[0] if mo[0] != "ok" else type(mo[1]).__name__
        self.outcomes[kind] = self.outcomes.get(kind, 0) + 1
        key = (label, kind)
        self.distinct.add(hash((T.show(term), tuple(sorted((k, vrepr(v)) for k, v in setup.items())))))
        if len(self.samples) < 2:
            self.samples.append({"section": self.section, "expr": T.show(term),
                                 "operands": {k: vrepr(v) for k, v in setup.items()},
                                 "deferred": describe(r), "python": describe(mo)})
        if not agree(r, mo):
            if len(self.issues) < 30:
                self.issues.append({
                    "kind": "violation", "property": "C04", "finding": None,
                    "what": f"{self.section}: {T.show(term)} evaluates to {describe(r)}, Python gives {describe(mo)}",
                    "program": [f"{k} = {vrepr(v)}" for k, v in setup.items()] + [f"({T.show(term)})._get_value()"],
                    "config": {}, "case": {"section": self.section, "term": repr(term),
                                           "setup": {k: repr(v) for k, v in setup.items()}}})
            return False
        return True

    def result(self):
        return {"evaluations": self.ev, "distinct": self.distinct, "issues": self.issues,
                "outcomes": {self.section: self.outcomes}, "samples": self.samples}


def _np():
    import numpy as np
    np.seterr(all="ignore")
    warnings.simplefilter("ignore")
    return np


# ---------------------------------------------------------------- level 1


def job_binary(chunk):
    np = _np()
    env = Env()
    dom = domain(np)
    t = Tally("binary")
    for op in chunk:
        for x in dom:
            for y in dom:
                forms = [E.mk_bin(op, ("loc", A), ("loc", B))]
                if is_pynum(y):
                    forms.append(E.mk_bin(op, ("loc", A), ("lit", y)))
                if is_pynum(x) and op[0] == "bin":
                    forms.append(E.mk_bin(op, ("lit", x), ("loc", B)))
                for term in forms:
                    t.check(env, term, op[1], {"a": x, "b": y})
                    # operands change in the containers: evaluate again (swapped)
                    if term[2][0] == "loc" and term[3][0] == "loc":
                        t.check(env, term, op[1], {"a": y, "b": x})
    return t.result()


def job_unary_builtin(chunk):
    np = _np()
    env = Env()
    dom = domain(np)
    t = Tally("unary+builtin")
    for what in chunk:
        for x in dom:
            if what[0] == "un":
                t.check(env, ("un", what[1], ("loc", A)), what[1], {"a": x})
                t.check(env, ("un", what[1], ("un", what[1], ("loc", A))), what[1], {"a": x})
            elif what[0] == "bi1":
                t.check(env, ("bi", what[1], ("loc", A), ()), what[1], {"a": x})
            elif what[0] == "round":
                for n in (0, 1, -1, 2, None):
                    t.check(env, ("bi", "round", ("loc", A), (("lit", n),)), "round-lit", {"a": x})
                    t.check(env, ("bi", "round", ("loc", A), (("loc", B),)), "round-ref", {"a": x, "b": n})
            elif what[0] == "divmod":
                for y in dom:
                    t.check(env, ("bi", "divmod", ("loc", A), (("loc", B),)), "divmod-ref", {"a": x, "b": y})
                    if is_pynum(y):
                        t.check(env, ("bi", "divmod", ("loc", A), (("lit", y),)), "divmod-lit", {"a": x})
    return t.result()


def job_calls_access(chunk):
    np = _np()
    env = Env()
    dom = domain(np)
    t = Tally("call+access")
    small = [v for v in dom if is_pynum(v)][:9]
    for x in small:
        for y in small:
            s = {"a": x, "b": y}
            t.check(env, ("call", "hyp", (("loc", A), ("loc", B)), ()), "hyp", s)
            t.check(env, ("call", "hyp", (("loc", A),), (("y", ("loc", B)),)), "hyp-kw", s)
            t.check(env, ("call", "hyp", (("lit", x), ("loc", B)), ()), "hyp-lit", s)
            t.check(env, ("call", "pick", (("loc", A),), (("k", ("loc", B)),)), "pick-kw", s)
            t.check(env, ("call", "pick", (("loc", A),), (("k", ("lit", y)),)), "pick-kwlit", s)
            t.check(env, ("call", "pick", (("loc", A),), ()), "pick-default", s)
            t.check(env, ("call", "dbl", (("bin", "add", ("loc", A), ("loc", B)),), ()), "dbl-expr", s)
            t.check(env, ("call", "total", (("loc", ("s", ("i", "l"))),), ()), "total", s)
            # the callee sees positional and keyword arguments exactly as written (keyword order included)
            t.check(env, ("call", "kw", (("loc", A), ("lit", x)), (("z", ("loc", B)), ("a", ("lit", y)), ("m", ("loc", A)))), "kw-order", s)
            t.check(env, ("call", "kw", (), (("q", ("loc", A)), ("b", ("loc", B)))), "kw-order2", s)
    # the CALLEE is itself a location: evaluate, rebind the callee through the container, evaluate the SAME expression again
    def f1(x, y=1):
        return x * 10 + y

    def f2(x, y=1):
        return x - 100 * y

    class Obj:
        def __init__(self, k):
            self.k = k

        def apply(self, x):
            return x * self.k

    for x in small[:5]:
        env.data.update({"a": x, "fn": f1, "obj": Obj(3), "tbl": {"p": f1, "q": f2}, "which": "p"})
        r = env.roots["s"]
        exprs = [("s['fn'](s['a'], y=2)", r["fn"](r["a"], y=2), lambda d: d["fn"](d["a"], y=2)),
                 ("s['obj'].apply(s['a'])", r["obj"].apply(r["a"]), lambda d: d["obj"].apply(d["a"])),
                 ("s['tbl'][s['which']](s['a'])", r["tbl"][r["which"]](r["a"]), lambda d: d["tbl"][d["which"]](d["a"]))]
        for label, e, py in exprs:
            for step_, change in (("first evaluation", {}), ("callee rebound", {"fn": f2, "obj": Obj(-7), "which": "q"}),
                                  ("argument changed", {"a": 11})):
                env.data.update(change)
                got = E.outcome(lambda: e._get_value())
                want = E.outcome(lambda: py(env.data))
                t.ev += 1
                t.distinct.add(hash((label, step_, vrepr(x))))
                if not agree(got, want) and len(t.issues) < 30:
                    t.issues.append({"kind": "violation", "property": "C04", "finding": None, "config": {},
                                     "what": f"call through a location-held callee, {step_}: {label} evaluates to {describe(got)}, Python gives {describe(want)}",
                                     "program": [f"e = {label}", "e._get_value()", f"callee / argument changed in the container: {sorted(change)}", "e._get_value()"],
                                     "case": {"section": "callee", "label": label}})
    # item / attribute access, constant and computed keys, present and absent
    L = ("s", ("i", "l"))
    D = ("s", ("i", "d"))
    for i in (0, 1, 2, -1, 3, -4):
        t.check(env, ("loc", L + (("i", i),)), "item-const", {})
        t.check(env, ("dyn", L, ("loc", ("s", ("i", "i")))), "item-computed", {"i": i})
        t.check(env, ("dyn", L, ("bin", "sub", ("loc", ("s", ("i", "i"))), ("lit", 1))), "item-computed-expr", {"i": i})
        t.check(env, ("bin", "mul", ("dyn", L, ("loc", ("s", ("i", "i")))), ("lit", 2)), "item-computed-arith", {"i": i})
    for k in ("x", "y", "zz"):
        t.check(env, ("loc", D + (("i", k),)), "key-const", {})
        t.check(env, ("dyn", D, ("loc", ("s", ("i", "k")))), "key-computed", {"k": k})
    for name in ("p", "q", "nope"):
        t.check(env, ("loc", ("s", ("i", "o"), ("a", name))), "attr", {})
        t.check(env, ("bin", "add", ("loc", ("s", ("i", "o"), ("a", name))), ("loc", A)), "attr-arith", {"a": 2})
    return t.result()


# ---------------------------------------------------------------- in-place

IOP_VALUES = [7, 13, 2, 0, -3, 2.5, True]


def job_inplace(chunk):
    np = _np()
    import xdeps
    ev = 0
    distinct = set()
    issues = []
    outcomes = {}
    samples = []
    arr = np.array([[1, 2], [3, 4]])
    for opname in chunk:
        vals = IOP_VALUES if opname != "matmul" else [arr, np.array([1, 2]), 3]
        for tv in vals:
            for ov in vals:
                for target_expr in (False, True):
                    for operand_ref in (False, True):
                        if opname == "matmul" and target_expr != operand_ref:
                            # array literal operand (unhashable: outside the property's literal
                            # domain) or numpy array standing left of a ref (numpy owns the operator)
                            continue
                        ev += 1
                        data = {"t": tv, "u": ov, "w": tv}
                        m = xdeps.Manager()
                        r = m.ref(data, "s")
                        prog = [f"s = {{'t': {vrepr(tv)}, 'u': {vrepr(ov)}, 'w': {vrepr(tv)}}}"]
                        if target_expr:
                            r["t"] = r["w"]
                            prog.append("s['t'] = s['w']")
                        operand = r["u"] if operand_ref else ov
                        prog.append(f"s['t'] {T.BIN_SYM[opname]}= " + ("s['u']" if operand_ref else vrepr(ov)))
                        # model
                        deferred = target_expr or operand_ref

                        def pyop(a, b):
                            if deferred and opname in T.GUARDED:
                                try:
                                    return T.BIN[opname](a, b)
                                except ZeroDivisionError:
                                    return T.NAN
                            return T.BIN[opname](a, b)
                        want = E.outcome(lambda: pyop(tv, ov))

                        def do():
                            tmp = r["t"]
                            tmp = T.INPLACE[opname](tmp, operand)
                            r["t"] = tmp
                            return data["t"]
                        got = E.outcome(do)
                        kind = want[0] if want[0] != "ok" else type(want[1]).__name__
                        outcomes[kind] = outcomes.get(kind, 0) + 1
                        distinct.add((opname, vrepr(tv), vrepr(ov), target_expr, operand_ref))
                        probs = []
                        if not agree(got, want):
                            probs.append(f"result {describe(got)}, Python gives {describe(want)}")
                        elif got[0] == "ok":
                            e = r["t"]._expr
                            if deferred and e is None:
                                probs.append("no live definition was registered")
                            if not deferred and e is not None:
                                probs.append(f"value (+) value registered a task: {e}")
                            if e is not None:
                                deps = e._get_dependencies()
                                if r["t"] in deps:
                                    probs.append(f"the definition refers to its own target: {e}")
                                # stays live: change an operand through the manager
                                for (name, newv) in (("w", ov), ("u", tv)):
                                    uses = (name == "w" and target_expr) or (name == "u" and operand_ref)
                                    if not uses:
                                        continue
                                    old = dict(data)
                                    chg = E.outcome(lambda: r.__setitem__(name, newv))
                                    a2 = data["w"] if target_expr else tv
                                    b2 = data["u"] if operand_ref else ov
                                    want2 = E.outcome(lambda: pyop(a2, b2))
                                    if want2[0] == "ok":
                                        if chg[0] != "ok" or not T.same(data["t"], want2[1]):
                                            probs.append(f"after s[{name!r}] = {vrepr(newv)} the target holds {vrepr(data['t'])}, "
                                                         f"definition gives {describe(want2)}")
                                    prog.append(f"s[{name!r}] = {vrepr(newv)}")
                        else:
                            if data["t"] is not tv and not (target_expr and T.same(data["t"], tv)):
                                probs.append("a failing in-place operation changed the target")
                        if len(samples) < 2:
                            samples.append({"section": "inplace", "program": list(prog), "result": describe(got), "python": describe(want)})
                        if probs and len(issues) < 30:
                            issues.append({"kind": "violation", "property": "C04", "finding": None,
                                           "what": f"in-place {T.BIN_SYM[opname]}=: " + "; ".join(probs),
                                           "program": prog, "config": {},
                                           "case": {"section": "inplace", "op": opname, "tv": vrepr(tv), "ov": vrepr(ov),
                                                    "target_expr": target_expr, "operand_ref": operand_ref}})
    return {"evaluations": ev, "distinct": distinct, "issues": issues, "outcomes": {"inplace": outcomes}, "samples": samples}


def job_inplace_parent(chunk):
    """in-place operator on a location that has no expression of its own but ENCLOSES an expression-defined member, or is the
    computed key of an expression-defined item: the old VALUE is combined with the operand, nothing is registered for it"""
    np = _np()
    import xdeps
    ev = 0
    issues = []
    distinct = set()
    for opname in chunk:
        for case in ("computed-key", "array-parent", "dict-key-parent"):
            for ov in (1, 2):
                ev += 1
                data = {"arr": np.array([1.0, 2.0, 3.0]), "x": 4.0, "i": 0, "tab": {0: 5.0, 1: 6.0, 2: 7.0, 3: 8.0}, "k": 1}
                m = xdeps.Manager()
                r = m.ref(data, "s")
                prog = []
                try:
                    if case == "computed-key":
                        r["tab"][r["i"]] = r["x"] + 40
                        prog += ["s['tab'][s['i']] = s['x'] + 40", f"s['i'] {T.BIN_SYM[opname]}= {ov}"]
                        tgt, old = "i", 0
                    elif case == "dict-key-parent":
                        r["tab"][r["k"] + 1] = r["x"] * 2
                        prog += ["s['tab'][s['k'] + 1] = s['x'] * 2", f"s['k'] {T.BIN_SYM[opname]}= {ov}"]
                        tgt, old = "k", 1
                    else:
                        r["arr"][1] = r["x"] * 3
                        prog += ["s['arr'][1] = s['x'] * 3", f"s['arr'] {T.BIN_SYM[opname]}= {ov}"]
                        tgt, old = "arr", np.array(data["arr"])
                    want = E.outcome(lambda: T.BIN[opname](old, ov))

                    def do():
                        tmp = T.INPLACE[opname](r[tgt], ov)
                        r[tgt] = tmp
                        return data[tgt]
                    got = E.outcome(do)
                except Exception as e:  # noqa
                    got, want = ("setup-" + type(e).__name__, None), ("ok", None)
                distinct.add((opname, case, ov))
                probs = []
                if want[0] == "ok" and got[0] == "ok":
                    if not T.same(got[1], want[1]):
                        probs.append(f"{tgt} holds {vrepr(got[1])}, old value {T.BIN_SYM[opname]} operand is {vrepr(want[1])}")
                    if r[tgt]._expr is not None:
                        probs.append(f"a definition was registered for {tgt} (which had none): {r[tgt]._expr}")
                elif want[0] != got[0] and not (want[0] == "ok" and got[0] in ("IndexError", "KeyError")):
                    probs.append(f"outcome {got[0]}, Python gives {want[0]}")
                if probs and len(issues) < 20:
                    issues.append({"kind": "violation", "property": "C04", "finding": None, "config": {},
                                   "what": f"in-place {T.BIN_SYM[opname]}= on a location without expression ({case}): " + "; ".join(probs),
                                   "program": prog, "case": {"section": "inplace_parent", "op": opname, "case": case, "ov": ov}})
    return {"evaluations": ev, "distinct": distinct, "issues": issues, "outcomes": {"inplace_parent": {"cases": ev}}, "samples": []}


# ---------------------------------------------------------------- trees

TREE_VALUES = [0, 7, -2.5, True]
REP_OPS = [("bin", "sub"), ("bin", "truediv"), ("bin", "mod"), ("bin", "pow"), ("bin", "lt"), ("bin", "and")]
REP_VALUES = [0, 3, -2.5]


def tree_leaves(values):
    return [("loc", A), ("loc", B)] + [("lit", v) for v in values]


def job_trees2(chunk):
    """chunk: list of outer operators; all op2(op1(x,y), z) and op2(z, op1(x,y))"""
    _np()
    env = Env()
    t = Tally("trees-depth2")
    leaves = tree_leaves(TREE_VALUES)
    inner = list(E.depth1(E.BINOPS, leaves)) + [("un", k, ("loc", A)) for k in T.UN]
    assigns = [(x, y) for x in TREE_VALUES for y in TREE_VALUES]
    for op in chunk:
        for i in inner:
            for l in leaves:
                for term in (E.mk_bin(op, i, l), E.mk_bin(op, l, i)):
                    if term[0] == "cmp" and term[2][0] == "lit":
                        continue
                    for x, y in assigns:
                        t.check(env, term, op[1], {"a": x, "b": y})
    return t.result()


def job_trees3(chunk):
    """all full trees op3(op2(op1(..), ..), op1'(..)) over representative operators"""
    _np()
    env = Env()
    t = Tally("trees-depth3")
    leaves = tree_leaves(REP_VALUES)
    d1 = list(E.depth1(REP_OPS, leaves))
    d2 = [E.mk_bin(op, i, l) for op in REP_OPS for i in d1[::3] for l in leaves]
    assigns = [(x, y) for x in REP_VALUES for y in REP_VALUES]
    for op in chunk:
        for i2 in d2:
            for i1 in d1[::5]:
                for term in (E.mk_bin(op, i2, i1), E.mk_bin(op, i1, i2)):
                    for x, y in assigns[::2]:
                        t.check(env, term, op[1], {"a": x, "b": y})
    return t.result()


ROUND_OPS = [("bin", "add"), ("bin", "sub"), ("bin", "mul"), ("bin", "truediv")]
ROUND_LITS = [1, -1, 3, 2 ** 53, -2 ** 53, 0.1, 1e16]
ROUND_VALUES = [0.1, 0.2, 0.3, 1.0, 1e16, -1e16, 1e-17, 7]


def job_rounding(chunk):
    """nested trees whose value depends on the ORDER of the floating-point operations: any algebraic rewriting of the tree
    (folding literals, re-associating a chain) changes the rounding.  All op2(op1(x, c1), c2) in every operand arrangement."""
    _np()
    env = Env()
    t = Tally("rounding")
    X, Y = ("loc", A), ("loc", B)
    for op2 in chunk:
        for op1 in ROUND_OPS:
            for c1 in ROUND_LITS:
                for c2 in ROUND_LITS:
                    l1, l2 = ("lit", c1), ("lit", c2)
                    terms = [E.mk_bin(op2, E.mk_bin(op1, X, l1), l2), E.mk_bin(op2, l2, E.mk_bin(op1, X, l1)),
                             E.mk_bin(op2, E.mk_bin(op1, l1, X), l2), E.mk_bin(op2, l2, E.mk_bin(op1, l1, X)),
                             E.mk_bin(op2, E.mk_bin(op1, X, Y), l2), E.mk_bin(op2, X, E.mk_bin(op1, Y, l2))]
                    for term in terms:
                        for x in ROUND_VALUES:
                            t.check(env, term, op2[1], {"a": x, "b": 0.2})
    return t.result()


SECTIONS = {
    "binary": job_binary, "unary_builtin": job_unary_builtin, "calls_access": job_calls_access,
    "inplace": job_inplace, "trees2": job_trees2, "trees3": job_trees3, "rounding": job_rounding, "inplace_parent": job_inplace_parent,
}


def plan(tier, seed):
    jobs = []
    secs = ["binary", "unary_builtin", "calls_access", "inplace", "inplace_parent", "trees2", "rounding"] + (["trees3"] if tier == "thorough" else [])
    for s in secs:
        jobs.append({"name": s, "mode": "compiled", "hashseed": seed % 2 ** 32 if s == "binary" else 0,
                     "nproc": 6 if s in ("trees2", "trees3") else 3, "timeout": 3000,
                     "args": {"section": s, "tier": tier}})
    return {"level": LEVEL, "jobs": jobs,
            "assumptions": ["literal operands are hashable Python numbers; numpy values only occur inside containers or as right operands",
                            "value domain is the stated finite list (zeros, signs, bools, complex, numpy scalars and arrays)"]}


def run_job(job):
    sec = job["args"]["section"]
    tier = job["args"]["tier"]
    if sec == "binary":
        chunks = [[op] for op in E.BINOPS]
    elif sec == "unary_builtin":
        chunks = [[("un", k)] for k in T.UN] + [[("bi1", k)] for k in ("abs", "trunc", "floor", "ceil")] + [[("round",)], [("divmod",)]]
    elif sec == "calls_access":
        chunks = [[0]]
    elif sec == "inplace":
        chunks = [[k] for k in T.INPLACE]
    elif sec == "inplace_parent":
        chunks = [[k] for k in ("add", "sub", "mul", "floordiv", "pow")]
    elif sec == "rounding":
        chunks = [[op] for op in ROUND_OPS]
    elif sec == "trees2":
        ops = E.BINOPS if tier == "thorough" else E.BINOPS
        chunks = [[op] for op in ops]
        if tier == "quick":
            global TREE_VALUES
            TREE_VALUES = [0, 7, -2.5]
    else:
        chunks = [[op] for op in REP_OPS]
    r = E.pmap(SECTIONS[sec], chunks, job.get("nproc", 1))
    r["section"] = sec
    r["distinct"] = len(r.get("distinct", ()))
    return r


def finish(plan_, results):
    cov = {"evaluations": 0, "distinct_nontrivial": 0, "sections": {}, "outcomes": {}, "samples": [], "exhaustive": True}
    issues = []
    for r in results:
        cov["evaluations"] += r["evaluations"]
        cov["distinct_nontrivial"] += r["distinct"]
        cov["sections"][r["section"]] = {"evaluations": r["evaluations"], "distinct": r["distinct"], "wall_s": round(r["wall_s"], 2)}
        cov["outcomes"].update(common.jsonable(r.get("outcomes", {})))
        cov["samples"].extend(r.get("samples", [])[:2])
        issues.extend(r["issues"])
    cov["rule"] = ("complete products: operator x operand form x ordered value pair (plus re-evaluation after the operands change); "
                   "builtins x domain x parameters; calls/access; in-place operator x target state x operand form x value pair; "
                   "all depth-2 trees over the full operator set and (thorough) depth-3 trees over 6 representative operators. "
                   "distinct = distinct (expression text, operand values) cases; every case has a ref operand, hence is non-trivial")
    return cov, issues


def replay(issue):
    np = _np()
    case = issue["case"]
    ns = {"array": np.array, "np": np, "nan": float("nan"), "inf": float("inf"), "float64": np.float64, "int64": np.int64}
    if case.get("section") == "callee":
        r = job_calls_access([0])
        bad = [i for i in r["issues"] if i["case"].get("section") == "callee"]
        return {"still_fails": bool(bad), "what": bad[0]["what"] if bad else "ok"}
    if case.get("section") == "inplace_parent":
        r = job_inplace_parent([case["op"]])
        bad = [i for i in r["issues"] if i["case"] == case]
        return {"still_fails": bool(bad), "what": bad[0]["what"] if bad else "ok"}
    if case.get("section") == "inplace":
        r = job_inplace([case["op"]])
        bad = [i for i in r["issues"] if i["case"] == case]
        return {"still_fails": bool(bad), "what": bad[0]["what"] if bad else "ok"}
    term = eval(case["term"], ns)
    setup = {k: eval(v, ns) for k, v in case["setup"].items()}
    out = []
    for _ in range(2):
        t = Tally(case["section"])
        ok = t.check(Env(), term, "replay", setup)
        out.append(ok)
    if out[0] != out[1]:
        raise RuntimeError("replay diverged")
    return {"still_fails": not out[0], "what": t.issues[0]["what"] if t.issues else "ok"}
