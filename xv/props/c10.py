"""C10 — accepted optimizer iterates respect limits, max_step and disabled
knobs.  Exhaustive enumeration (engine E) of a configuration grid whose
unconstrained solutions lie outside the limits or far away: families x starts
x limit boxes x per-knob max_step settings x knob weights x persistent
disabling (disable()) and one-call disabling (step(disable_*=...)) x call
(step(n) / solve()) x Broyden.  Oracles: every log row and the container lie
in the closed limits; every Jacobian-step row moved each knob by at most its
max_step; a disabled knob's value never changes (write trace + log); a twin
problem that differs only in the disabled target's function and value takes a
bit-identical knob trajectory; one-call disabling leaves the flags as before."""
import math

from .. import enumerate as E
from .. import optsys as O
from . import common

LEVEL = "exploration"
KW_MIXED = (4.0, 0.5, 2.0, 3.0)


def configs(tier):
    fams = {"ident2": [[0.0, 0.0], [1.0, -1.0]], "ident3": [[0.0, 0.0, 0.0]], "lin2": [[0.1, 0.1]], "lin3": [[0.1, 0.1, 0.1]],
            "sepquad": [[0.6, -0.3]], "coupled": [[0.1, 0.1]], "trig": [[0.1, 0.1]], "lin_wide": [[0.1, 0.1, 0.1]],
            "posq": [[0.3, 0.2]]}
    # a start point that already matches the targets (a call that has nothing to do)
    fams["lin2"] = fams["lin2"] + [list(O.FAMILIES["lin2"]["ksol"])]
    fams["coupled"] = fams["coupled"] + [list(O.FAMILIES["coupled"]["ksol"])]
    if tier == "thorough":
        fams.update({"lin_tall": [[0.1, 0.1]], "lin4x5": [[0.1, 0.1, 0.1, 0.1]], "quad3": [[0.6, -0.3, 0.4]], "bump": [[0.5, 0.5]]})
    for fam, sts in fams.items():
        F = O.FAMILIES[fam]
        nk, nt = F["nk"], F["nt"]
        for x0 in sts:
            limsets = {"none": None, "box": [(x - 0.75, x + 0.5) for x in x0],
                       "asym": [(x - 0.1 * (i + 1), x + 3.0 / (i + 1)) for i, x in enumerate(x0)]}
            mssets = {"none": None, "uniform": [0.5] * nk, "perknob": [(1.0, 5.0, 0.25, 2.0)[i] for i in range(nk)],
                      "partial": [(0.1, None, 2.0, None)[i] for i in range(nk)]}
            for tshift in (0.0, 5.0, -40.0):
                for lname, lim in limsets.items():
                    for mname, ms in mssets.items():
                        if lname == "none" and mname == "none":
                            continue
                        for kw in (None, KW_MIXED[:nk]):
                            dis = [("none", (), (), {})]
                            if nk > 1:
                                dis += [("dv", (0,), (), {}), ("dv", (nk - 1,), (), {}),
                                        ("step_dv", (), (), {"disable_vary": [0]}), ("step_dvn", (), (), {"disable_vary_name": ["k1"]})]
                            if nt > 1:
                                dis += [("dt", (), (0,), {}), ("step_dt", (), (), {"disable_target": [nt - 1]}),
                                        ("step_dt_tag", (), (), {"disable_target": ["t0"]})]
                            if nk > 1 and nt > 1:
                                dis += [("dvdt", (1,), (1,), {}), ("step_both", (), (), {"disable_vary": ["v1"], "disable_target": [0]})]
                            if lname != "none":
                                # a query first: the limits of a rescaled view of the merit function are asked for
                                dis += [("pre_view", (), (), {})]
                            if fam == "posq":
                                dis += [("optlog_dt", (), (0,), {}), ("optlog_step_dt", (), (), {"disable_target": [1]})]
                            if nk > 1:
                                # a call sequence: steps, then knob 0 is disabled and re-tuned by hand, then the call under test
                                dis += [("seq_tune", (), (), {})]
                            if nt > 1:
                                # a call sequence: a Jacobian step with every target active, then the last target is disabled, then the
                                # call under test re-uses that Jacobian (broyden=True)
                                dis += [("seq_dt_broyden", (), (), {})]
                            if nk > 2:
                                # names / tags of which one is a prefix of another: the longer one disabled persistently, the shorter
                                # one for one call only
                                dis += [("prefix_name", (1,), (), {"disable_vary_name": ["k1"]}), ("prefix_tag", (1,), (), {"disable_vary": ["v1"]})]
                            if nt > 2:
                                dis += [("prefix_ttag", (), (1,), {"disable_target": ["t1"]})]
                            variants = [{}]
                            if lname != "none" and mname in ("none", "uniform"):
                                # where the limits come from (Vary arguments or the container's vary_default table), and the
                                # optimizer built with check_limits=False (the merit function then does not raise, the solver
                                # must keep the iterates inside all the same)
                                variants += [{"lim_source": "defaults_both"}, {"lim_source": "defaults_limits"}, {"lim_source": "defaults_step"},
                                             {"check_limits": False}]
                            for (dname, dv, dt, stepkw), variant in [(d, v) for d in dis for v in variants if not v or d[0] in ("none", "dv", "dt")]:
                                calls = [("step", 1), ("step", 4)] if tier == "quick" else [("step", 1), ("step", 3), ("step", 8)]
                                if not stepkw and dname not in ("seq_tune", "seq_dt_broyden"):
                                    # (a failing solve() restores iteration 0, which legitimately undoes a knob the user re-tuned by
                                    # hand after iteration 0; the sequence case is therefore judged on step() calls)
                                    calls.append(("solve", None))
                                for call in calls:
                                    for br in ((False,) if tier == "quick" else (False, True)):
                                        spec = {"fam": fam, "x0": x0, "limits": lim, "max_step": ms, "kw": kw, "tw": None, "tol": 1e-9,
                                                "tshift": tshift, "dv": dv, "dt": dt, "stepkw": stepkw, "call": call, "broyden": br,
                                                "nsm": 6, "names": (lname, mname, dname) + tuple(sorted(variant.items()))}
                                        spec.update(variant)
                                        if dname == "seq_tune":
                                            spec["pre_seq"] = True
                                        if dname == "seq_dt_broyden":
                                            spec["pre_dt"] = nt - 1
                                            spec["broyden"] = True
                                        if dname == "pre_view":
                                            spec["pre_view"] = True
                                        if dname.startswith("optlog"):
                                            if tshift < 0:
                                                continue      # optimize_log needs positive target values
                                            spec["optlog"] = (0, 1)
                                        if dname.startswith("prefix"):
                                            spec["knob_names"] = ["k1", "k10", "k2", "k3"][:nk]
                                            spec["vary_tags"] = ["v1", "v10", "v2", "v3"][:nk]
                                            spec["target_tags"] = ["t1", "t10", "t2", "t3", "t4"][:nt]
                                        yield spec


def issue(spec, what):
    call = spec["call"]
    kw = ", ".join(f"{k}={v!r}" for k, v in spec["stepkw"].items())
    c = f"opt.step({call[1]}{', ' + kw if kw else ''}, broyden={spec['broyden']})" if call[0] == "step" else f"opt.solve(broyden={spec['broyden']})"
    return {"kind": "violation", "property": "C10", "finding": None, "what": what, "config": {},
            "program": [f"problem: {O.spec_str(spec)}", c], "case": {"spec": repr(spec)}}


def do_call(p, spec):
    call = spec["call"]
    exc = None
    try:
        if call[0] == "step":
            p.opt.step(call[1], broyden=spec["broyden"], **spec["stepkw"])
        else:
            p.opt.solve(broyden=spec["broyden"])
    except Exception as e:  # noqa
        exc = e
    return exc


def idx_of(sel, n, prefix, names=None):
    out = set()
    for s in sel or ():
        if isinstance(s, int):
            out.add(s)
        elif names is not None:
            out.add(names.index(s))
        else:
            out.add(int(s.lstrip(prefix)))
    return out


def run_case(spec):
    out = []
    p = O.Problem(spec)
    nk, nt = p.nk, p.nt
    unit = spec["kw"] is None
    if spec.get("pre_seq"):
        try:
            p.opt.step(2)
        except Exception:  # noqa
            pass
        p.opt.disable(vary=[0])
        v = dict.__getitem__(p.knobs, p.kn[0]) + 0.0625
        if p.limits is not None and not (p.limits[0][0] <= v <= p.limits[0][1]):
            v = 0.5 * (p.limits[0][0] + p.limits[0][1])
        p.knobs[p.kn[0]] = v
    if spec.get("pre_view"):
        try:
            p.opt.get_merit_function(rescale_x=(0, 1)).get_x_limits()
        except Exception:  # noqa
            pass
    if spec.get("pre_dt") is not None:
        try:
            p.opt.step(1)
        except Exception:  # noqa
            pass
        p.opt.disable(target=[spec["pre_dt"]])
    vflags0, tflags0 = p.vary_flags(), p.target_flags()
    k_before = p.knob_values()
    nrows0 = len(p.log_rows())
    p.knobs.writes.clear()
    exc = do_call(p, spec)
    rows = p.log_rows()
    # ---- limits on every row and the container
    if p.limits is not None:
        pts = [("log row %d" % i, r["knobs"]) for i, r in enumerate(rows)] + [("container", p.knob_values())]
        for where, k in pts:
            for i in range(nk):
                lo, hi = p.limits[i]
                v = k[i]
                ok = (lo <= v <= hi) if unit else (v >= lo - 2 * math.ulp(max(abs(lo), abs(v))) and v <= hi + 2 * math.ulp(max(abs(hi), abs(v))))
                if not ok:
                    out.append(issue(spec, f"{where}: knob k{i} = {v!r} is outside its limits [{lo}, {hi}]"))
                    return out, exc
    # ---- max_step between consecutive Jacobian steps
    if p.max_step is not None:
        for r in range(max(1, nrows0 + (1 if spec.get("pre_seq") else 0)), len(rows)):
            if rows[r]["alpha"] is None or rows[r]["alpha"] < 0:
                continue
            for i in range(nk):
                ms = p.max_step[i]
                if ms is None:
                    continue
                d = abs(rows[r]["knobs"][i] - rows[r - 1]["knobs"][i])
                slack = 4e-12 * (1.0 + abs(rows[r]["knobs"][i]) + ms)
                if d > ms + slack:
                    out.append(issue(spec, f"Jacobian step logged as row {r} moved knob k{i} by {d!r} > max_step {ms!r} "
                                           f"({rows[r - 1]['knobs'][i]!r} -> {rows[r]['knobs'][i]!r})"))
                    return out, exc
    # ---- disabled knobs never change
    dis_v = ({0} if spec.get("pre_seq") else set()) | set(spec["dv"]) | idx_of(spec["stepkw"].get("disable_vary"), nk, "v", p.vtags) | idx_of(spec["stepkw"].get("disable_vary_name"), nk, "k", p.kn)
    for i in sorted(dis_v):
        vals = [v for (key, v) in p.knobs.writes if key == p.kn[i]]
        changed = [v for v in vals if v != k_before[i]]
        if changed:
            out.append(issue(spec, f"disabled knob k{i} was written with {changed[0]!r} (value before the call {k_before[i]!r})"))
            return out, exc
        for r in range(nrows0, len(rows)):
            if rows[r]["knobs"][i] != k_before[i]:
                out.append(issue(spec, f"disabled knob k{i} changed in log row {r}: {rows[r]['knobs'][i]!r} != {k_before[i]!r}"))
                return out, exc
        if p.knob_values()[i] != k_before[i]:
            out.append(issue(spec, f"disabled knob k{i} changed: {p.knob_values()[i]!r} != {k_before[i]!r}"))
            return out, exc
    # ---- one-call disabling leaves the flags as they were (on normal return)
    if spec["stepkw"] and exc is None:
        if p.vary_flags() != vflags0 or p.target_flags() != tflags0:
            out.append(issue(spec, f"after step({spec['stepkw']}) returned the active flags are vary={p.vary_flags()} target={p.target_flags()}, "
                                   f"before the call vary={vflags0} target={tflags0}"))
            return out, exc
    if spec["stepkw"] and exc is not None and isinstance(exc, TypeError):
        out.append(issue(spec, f"step({spec['stepkw']}) raised TypeError: {exc}"))
        return out, exc
    # ---- a target disabled AFTER a Jacobian step had seen it: on a linear problem without limits the step that re-uses that
    # Jacobian (Broyden's update is exact there) must be the step of the same problem in which the target was never active
    if spec.get("pre_dt") is not None and p.limits is None and spec["fam"] in ("ident2", "ident3", "lin2", "lin3", "lin_wide", "lin_tall", "lin4x5"):
        spec2 = dict(spec, x0=list(k_before), dt=(spec["pre_dt"],), broyden=False)
        spec2.pop("pre_dt")
        b = O.Problem(spec2)
        exc_b = do_call(b, spec2)
        ka, kb = p.knob_values(), b.knob_values()
        if type(exc) is not type(exc_b) or any(abs(x - y) > 1e-6 * (1.0 + abs(y)) for x, y in zip(ka, kb)):
            out.append(issue(spec, f"step ; target {spec['pre_dt']} disabled ; Broyden step: the knobs end at {ka!r}; the same linear problem in "
                                   f"which that target was never active ends at {kb!r} from the same point (exceptions "
                                   f"{type(exc).__name__ if exc else None} / {type(exc_b).__name__ if exc_b else None})"))
            return out, exc
    # ---- a disabled target has no influence: differential twin
    dis_t = set(spec["dt"]) | idx_of(spec["stepkw"].get("disable_target"), nt, "t", p.ttags)
    if spec.get("pre_dt") is not None:
        dis_t.add(spec["pre_dt"])
    start = list(k_before)
    alts = [("another function", lambda k, j=0: 7.0 * k[0] - 3.0 + (k[-1] + 1.0) ** 2 + j),
            # finite at the start point, not a number / infinite everywhere else
            ("a function that is nan away from the start point", lambda k, j=0: 1.0 + j if list(k) == start else float("nan")),
            ("a function that is inf away from the start point", lambda k, j=0: 1.0 + j if list(k) == start else float("inf"))]
    for j, (alt_name, alt_f) in [(j, a) for j in sorted(dis_t) for a in alts]:
        alt = (j, lambda k, j=j, alt_f=alt_f: alt_f(k, j), 11.0)
        if spec.get("pre_dt") is not None:
            # the twin's target is the ORIGINAL one (same function, same target value) until it has been disabled, and only then
            # turns into something else
            sw = {"on": False}
            alt = (j, lambda k, j=j, alt_f=alt_f, sw=sw: alt_f(k, j) if sw["on"] else list(p.F["f"](k))[j], p.tvals[j])
        q = O.Problem(spec, alt_target=alt)
        if spec.get("pre_dt") is not None:
            try:
                q.opt.step(1)
            except Exception:  # noqa
                pass
            q.opt.disable(target=[spec["pre_dt"]])
            sw["on"] = True
        from .c16 import Deadline
        try:
            with Deadline(10):
                exc2 = do_call(q, spec)
        except TimeoutError as e:
            out.append(issue(spec, f"with the disabled target {j} changed to {alt_name} the call did not return within 10 s"))
            return out, exc
        rows2 = q.log_rows()
        same = len(rows) == len(rows2) and type(exc) is type(exc2)
        if same:
            for a, b in zip(rows[nrows0:], rows2[nrows0:]):
                # the penalty is compared on the rows where target j is inactive (a failing solve() restores the flags of
                # iteration 0, after which the target legitimately counts again)
                if a["knobs"] != b["knobs"] or a["alpha"] != b["alpha"] or a["vary_active"] != b["vary_active"] \
                        or a["target_active"] != b["target_active"] or (not a["target_active"][j] and a["penalty"] != b["penalty"]):
                    same = False
                    break
        if not same or p.knob_values() != q.knob_values():
            out.append(issue(spec, f"changing only the function/value of the disabled target {j} (to {alt_name}) changed the steps taken: "
                                   f"knob trajectory {[r['knobs'] for r in rows[nrows0:]][:4]!r} vs {[r['knobs'] for r in rows2[nrows0:]][:4]!r} "
                                   f"(exceptions {type(exc).__name__ if exc else None} / {type(exc2).__name__ if exc2 else None})"))
            return out, exc
    return out, exc


def job(chunk):
    out = {"evaluations": 0, "issues": [], "outcomes": {}, "distinct": set(), "moved": 0, "clipped_rows": 0}
    for spec in chunk:
        iss, exc = run_case(spec)
        out["evaluations"] += 1
        oc = type(exc).__name__ if exc is not None else "ok"
        out["outcomes"][oc] = out["outcomes"].get(oc, 0) + 1
        out["distinct"].add((spec["fam"], tuple(spec["x0"]), spec["names"], spec["tshift"], spec["kw"] is None, spec["call"], oc))
        if iss and len(out["issues"]) < 20:
            out["issues"].extend(iss[:2])
    return out


def plan(tier, seed):
    return {"level": LEVEL,
            "jobs": [{"name": "grid", "mode": "pure", "hashseed": seed % 2 ** 32, "nproc": 16, "timeout": 3300, "args": {"tier": tier}}],
            "assumptions": ["start points strictly inside the limits",
                            "limits exact for unit weights, 2 ulp otherwise; max_step compared with a 4e-12 relative slack (the solver "
                            "re-synchronises its state with the container to 1e-12 and subtracts the step in floating point)",
                            "'a disabled knob is never changed' is judged on the writes and log rows of the call; reload()/restore put all "
                            "knobs back to a logged row by design (the value of a knob that never changed is unchanged by it)",
                            "one-call disabling is applied to knobs/targets that were active before the call"]}


def run_job(job_):
    specs = list(configs(job_["args"]["tier"]))
    r = E.pmap(job, E.chunked(specs, 50), job_.get("nproc", 1))
    r["distinct_n"] = len(r.pop("distinct", ()))
    return r


def finish(plan_, results):
    r = results[0]
    cov = {"evaluations": int(r["evaluations"]), "distinct_nontrivial": int(r["distinct_n"]), "outcomes": common.jsonable(r.get("outcomes", {})),
           "exhaustive": True,
           "rule": "full product of the stated grid; distinct_nontrivial = distinct (family, start, limit/max_step/disabling setting, target shift, "
                   "weights, call, outcome) classes",
           "samples": [{"problem": O.spec_str(s), "call": s["call"], "step_kwargs": s["stepkw"]} for s in list(configs("quick"))[:2]]}
    return cov, r["issues"]


def replay(issue_):
    import ast
    spec = ast.literal_eval(issue_["case"]["spec"])
    iss, exc = run_case(spec)
    return {"still_fails": bool(iss), "what": iss[0]["what"] if iss else "ok"}
