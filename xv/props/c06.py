"""C06 — references are equal, and hash equally, exactly when they denote
the same path.  Exhaustive enumeration (engine E): all item/attribute paths
of depth <= 2 over an adversarial key pool and of depth 3-4 over a sub-pool,
under two container labels; ALL PAIRS are compared with `==`, hashes and
dict membership against structural path equality.  Plus: every depth-1/2
expression tree built twice from independently constructed refs, and a
10^5-key family through a dict."""
import itertools

from .. import enumerate as E
from .. import terms as T
from . import common

LEVEL = "exploration"

STR_KEYS = ["a", "b", "a.b", "a']['b", "a['b']", "a\"b", "a]", "['x']", "s", "s.a", "", "é", "名", "1", "0.5", "a ",
            "(1, 2)", "-1", "s['a']", "getattr(s, 'a')", "x', 'y",
            "\u00b5", "\u03bc", "\ufb01", "fi", "\u212b", "\u00c5",      # identifiers that differ only by Unicode normalisation
            "magnet_family_a_0017_strength_x", "magnet_family_a_0018_strength_x"]   # long generated names differing in the middle
OTHER_KEYS = [0, 1, 10, -1, -2, 0.5, -2.5, (1, 2), ("a", 1), (1,), ("a.b",),
              (1, 2, 3, 4, 5, 6, 7, 8), (1, 2, 3, 4, 5, 6, 7, 9), 10 ** 45 + 1, 10 ** 45 + 10 ** 20 + 1,   # long keys differing in the middle / at the end
              0.3, 0.1 + 0.2, 0.30000000000000007]                          # floats that differ beyond the 15th significant digit
SUB_KEYS = ["a", "a.b", 1, "s"]


def steps(keys):
    out = [("i", k) for k in keys]
    out += [("a", k) for k in keys if isinstance(k, str)]
    return out


def build(roots, path):
    import xdeps.refs as refs
    r = roots[path[0]]
    for kind, key in path[1:]:
        if kind == "i":
            r = r[key]
        else:
            # any string can be an attribute name via getattr(); go through the
            # public ref API (getattr on a ref) so the path is what a user can build
            r = getattr(r, key) if (key and not key.startswith("__")) else refs.AttrRef(r, key, r._manager)
    return r


def all_paths(tier):
    full = steps(STR_KEYS + OTHER_KEYS)
    sub = steps(SUB_KEYS if tier == "thorough" else SUB_KEYS[:3])
    paths = []
    for label in ("s", "t"):
        for a in full:
            paths.append((label, a))
        for a in full:
            for b in full:
                paths.append((label, a, b))
        for n in (3, 4):
            for combo in itertools.product(sub, repeat=n):
                paths.append((label,) + combo)
    # the manager's default label '_' next to containers labelled like its members; the container refs themselves (depth 0)
    for label in ("s", "t", "_"):
        paths.append((label,))
    for a in full:
        paths.append(("_", a))
    for a in (("a", "s"), ("a", "t"), ("i", "s"), ("a", "a")):
        for b in full:
            paths.append(("_", a, b))
    # depth 3/4 paths over the sub pool can coincide with nothing else; dedupe identical tuples
    return list(dict.fromkeys(paths))


class Universal(list):
    """a container in which EVERY path resolves, every level being a real list of five entries: equality of references must not
    depend on what the containers hold when the reference is built"""

    def __init__(self):
        super().__init__([0, 1, 2, 3, 4])

    def __getitem__(self, k):
        return Universal()

    def __getattr__(self, k):
        if k.startswith("__"):
            raise AttributeError(k)
        return Universal()


_STATE = {}


def _setup(tier):
    import xdeps
    m = xdeps.Manager()
    roots1 = {"s": m.ref({}, "s"), "t": m.ref({}, "t"), "_": m.ref({})}
    paths = all_paths(tier)
    refs_a = [build(roots1, p) for p in paths]
    # independently constructed second copy (fresh ref objects), by another manager over containers in which every path resolves
    m2 = xdeps.Manager()
    roots2 = {"s": m2.ref(Universal(), "s"), "t": m2.ref(Universal(), "t"), "_": m2.ref(Universal())}
    refs_b = [build(roots2, p) for p in paths]
    _STATE["m2"] = m2
    _STATE.update(paths=paths, a=refs_a, b=refs_b)
    return m


def job_pairs(chunk):
    """chunk: list of row indices i; compares refs_a[i] with refs_b[j] for all j"""
    paths, A, B = _STATE["paths"], _STATE["a"], _STATE["b"]
    n = len(paths)
    ev = 0
    eq_true = 0
    issues = []
    hashes = [hash(x) for x in B]
    for i in chunk:
        x = A[i]
        hx = hash(x)
        for j in range(n):
            y = B[j]
            same = (i == j)   # paths are distinct tuples, so structural equality is index equality
            e = (x == y)
            ev += 1
            if e is not True and e is not False:
                if len(issues) < 20:
                    issues.append(("eq-type", i, j, repr(type(e))))
                continue
            if e:
                eq_true += 1
            if e != same:
                if len(issues) < 20:
                    issues.append(("eq", i, j, e))
            elif e and hx != hashes[j]:
                if len(issues) < 20:
                    issues.append(("hash", i, j, None))
            if (x != y) == e:
                if len(issues) < 20:
                    issues.append(("ne", i, j, None))
    out_issues = []
    for kind, i, j, extra in issues:
        pi, pj = T.path_str(paths[i]) if False else repr(paths[i]), repr(paths[j])
        if kind == "eq":
            what = (f"refs {A[i]!r} and {B[j]!r} compare {'equal' if extra else 'different'} but denote "
                    f"{'different paths' if extra else 'the same path'}")
        elif kind == "hash":
            what = f"equal refs {A[i]!r} have different hashes"
        elif kind == "ne":
            what = f"!= is not the negation of == for {A[i]!r}, {B[j]!r}"
        else:
            what = f"== returned {extra} for {A[i]!r}, {B[j]!r}"
        out_issues.append({"kind": "violation", "property": "C06", "finding": None, "what": what,
                           "program": [f"path1 = {pi}", f"path2 = {pj}"], "config": {},
                           "case": {"pair": [repr(paths[i]), repr(paths[j])]}})
    return {"evaluations": ev, "eq_true": eq_true, "issues": out_issues}


def job_dicts(_):
    """dict / set membership, and printed forms"""
    paths, A, B = _STATE["paths"], _STATE["a"], _STATE["b"]
    issues = []
    d = {}
    for i, x in enumerate(A):
        d[x] = i
    ev = len(A)
    if len(d) != len(paths):
        # find a colliding pair
        seen = {}
        for i, x in enumerate(A):
            if x in seen and seen[x] != i:
                issues.append({"kind": "violation", "property": "C06", "finding": None,
                               "what": f"distinct paths select the same dictionary entry: {A[seen[x]]!r} / {x!r}",
                               "program": [repr(paths[seen[x]]), repr(paths[i])], "config": {},
                               "case": {"pair": [repr(paths[seen[x]]), repr(paths[i])]}})
                if len(issues) > 10:
                    break
            seen.setdefault(x, i)
    for i, y in enumerate(B):
        ev += 1
        if d.get(y) != i and len(issues) < 20:
            issues.append({"kind": "violation", "property": "C06", "finding": None,
                           "what": f"an independently built ref {y!r} does not find its own dictionary entry (found {d.get(y)!r})",
                           "program": [repr(paths[i])], "config": {}, "case": {"pair": [repr(paths[i]), repr(paths[i])]}})
    # distinct paths print differently (equality is defined on the printed form)
    texts = {}
    for i, x in enumerate(A):
        t = str(x)
        if t in texts and len(issues) < 30:
            j = texts[t]
            issues.append({"kind": "violation", "property": "C06", "finding": None,
                           "what": f"distinct paths print alike: {t}",
                           "program": [repr(paths[j]), repr(paths[i])], "config": {}, "case": {"pair": [repr(paths[j]), repr(paths[i])]}})
        texts.setdefault(t, i)
    return {"evaluations": ev, "issues": issues, "dict_size": len(d)}


def job_exprs(_):
    """identical structure over equal refs => equal, hash-equal, same dict entry"""
    import xdeps
    m = xdeps.Manager()
    from xdeps.refs import Ref
    data, funcs = {}, T.Funcs()
    mk = lambda: {"s": Ref(data, "s", m), "f": Ref(funcs, "f", m)}  # noqa  (fresh ref objects each time)
    A_, B_ = ("s", ("i", "a")), ("s", ("i", "n"), ("a", "x"))
    leaves = [("loc", A_), ("loc", B_), ("lit", 2), ("lit", -0.5), ("lit", True), ("lit", 1000003), ("lit", 2.5e10)]

    def fresh(t):
        """the same tree with every literal a NEW object of equal value (two users never share their float / big-int objects)"""
        if isinstance(t, tuple):
            if len(t) == 2 and t[0] == "lit" and type(t[1]) in (int, float):
                return ("lit", type(t[1])(repr(t[1])))
            return tuple(fresh(x) for x in t)
        return t

    d1 = list(E.depth1(E.BINOPS, leaves))
    trees = list(d1)
    trees += [("un", k, x) for k in T.UN for x in d1[::7] + leaves[:2]]
    trees += [E.mk_bin(op, i, l) for op in E.BINOPS for i in d1[::9] for l in leaves]
    trees += [E.mk_bin(op, l, i) for op in E.BINOPS[:17] for i in d1[::9] for l in leaves]
    trees += [("bi", n, x, ()) for n in ("abs", "trunc", "floor", "ceil") for x in d1[::11]]
    trees += [("bi", "round", x, (("lit", 1),)) for x in d1[::11]] + [("bi", "divmod", x, (("loc", A_),)) for x in d1[::11]]
    trees += [("call", "pick", (x,), (("k", ("loc", B_)),)) for x in d1[::11]]
    trees += [("dyn", ("s", ("i", "l")), x) for x in d1[::11]]
    # chains of one operator nested to the left and to the right: different structure (and value, in floating point)
    for o in ("add", "mul", "sub"):
        for c3 in (("loc", A_), ("lit", 2.5e10)):
            trees += [("bin", o, ("bin", o, ("loc", A_), ("loc", B_)), c3), ("bin", o, ("loc", A_), ("bin", o, ("loc", B_), c3))]
    ev = 0
    issues = []
    texts = {}
    for t in trees:
        e1 = T.to_ref(t, mk())
        e2 = T.to_ref(fresh(t), mk())
        ev += 1
        ok = (e1 == e2) is True and hash(e1) == hash(e2) and {e1: 1}.get(e2) == 1
        if not ok and len(issues) < 20:
            issues.append({"kind": "violation", "property": "C06", "finding": None,
                           "what": f"two independently built copies of {T.show(t)} are not equal / hash-equal "
                                   f"(==: {e1 == e2}, hashes equal: {hash(e1) == hash(e2)})",
                           "program": [T.show(t)], "config": {}, "case": {"expr": repr(t)}})
        texts.setdefault(str(e1), t)
    # chains of one operator nested to the left and to the right are DIFFERENT expressions: they must not compare equal
    for o in ("add", "mul", "sub"):
        for c3 in (("loc", A_), ("lit", 2.5e10)):
            tl = ("bin", o, ("bin", o, ("loc", A_), ("loc", B_)), c3)
            tr = ("bin", o, ("loc", A_), ("bin", o, ("loc", B_), c3))
            el, er = T.to_ref(tl, mk()), T.to_ref(tr, mk())
            ev += 1
            if (el == er) is not False or {el: 1}.get(er) is not None:
                issues.append({"kind": "violation", "property": "C06", "finding": None,
                               "what": f"expressions of different structure, {T.show(tl)} and {T.show(tr)}, compare equal / select the same "
                                       f"dictionary entry (hashes equal: {hash(el) == hash(er)})",
                               "program": [T.show(tl), T.show(tr)], "config": {}, "case": {"expr": repr(tl)}})
    return {"evaluations": ev, "issues": issues, "distinct_texts": len(texts)}


def job_family(_):
    import xdeps
    m = xdeps.Manager()
    s = m.ref({}, "s")
    N = 100000
    fam = {}
    for i in range(N):
        fam[s[f"k{i}"]] = i
        fam[s[i]] = i
        fam[s["n"][f"k{i}"]] = i
        fam[getattr(s, f"k{i}")] = i
    issues = []
    if len(fam) != 4 * N:
        issues.append({"kind": "violation", "property": "C06", "finding": None,
                       "what": f"a family of {4 * N} distinct refs collapses to {len(fam)} dictionary entries",
                       "program": ["s['k<i>'], s[<i>], s['n']['k<i>'], s.k<i> for i < 100000"], "config": {}, "case": {"family": N}})
    miss = 0
    for i in range(0, N, 7):
        if fam.get(s[f"k{i}"]) != i or fam.get(s[i]) != i or fam.get(s["n"][f"k{i}"]) != i or fam.get(getattr(s, f"k{i}")) != i:
            miss += 1
    if miss:
        issues.append({"kind": "violation", "property": "C06", "finding": None,
                       "what": f"{miss} refs of the large family do not find their own entry", "program": [], "config": {},
                       "case": {"family": N, "miss": miss}})
    hashes = len({hash(k) for k in fam})
    # structured families: the hash must separate (almost) all distinct paths.  The stored hash is 32 bits wide, so a few
    # birthday collisions are expected (n^2 / 2^33); systematic collisions (a hash that ignores the order or the position
    # of the steps) are orders of magnitude above the allowance of 20 x max(1, expected).
    fams = {"large family": list(fam)}
    G = 64
    fams["grid r[i][j]"] = [s[i][j] for i in range(G) for j in range(G)]
    fams["diagonal r[k][k]"] = [s[k][k] for k in range(3000)]
    names = [f"n{i}" for i in range(60)]
    fams["ordered pairs r[a][b]"] = [s[a][b] for a in names for b in names]
    fams["ordered attribute pairs r.a.b"] = [getattr(getattr(s, a), b) for a in names for b in names]
    fams["mixed r.a[b] / r[a].b"] = [getattr(s, a)[b] for a in names[:40] for b in names[:40]] + [getattr(s[a], b) for a in names[:40] for b in names[:40]]
    ev = 4 * N
    spread = {}
    for fname, refs_ in fams.items():
        n = len(refs_)
        ev += n
        distinct = len({hash(k) for k in refs_})
        allowed = int(20 * max(1.0, n * n / 2.0 ** 33))
        spread[fname] = [n, distinct]
        if n - distinct > allowed:
            issues.append({"kind": "violation", "property": "C06", "finding": None,
                           "what": f"{fname}: {n} distinct paths have only {distinct} distinct hashes (allowance for 32-bit birthday collisions: {allowed})",
                           "program": [fname], "config": {}, "case": {"family": fname}})
    return {"evaluations": ev, "issues": issues, "family_distinct_hashes": hashes, "hash_spread": spread}


CROSS_PATHS = [("s", ("i", "a")), ("s", ("a", "a")), ("s", ("i", "a"), ("i", 0)), ("s", ("i", "n"), ("a", "x"), ("i", -1)),
               ("s", ("i", (1, 2))), ("s", ("i", 0.5)), ("t", ("i", "a']['b")), ("t", ("a", "\u00b5"), ("i", "k"))]


def _cross_build():
    import xdeps
    m = xdeps.Manager()
    roots = {"s": m.ref({}, "s"), "t": m.ref({}, "t")}
    rs = [build(roots, p) for p in CROSS_PATHS]
    exprs = [rs[0] + rs[1], rs[2] * 2 - rs[3], abs(rs[4]), -rs[5]]
    return m, rs + exprs


def crossproc_child(path):
    """runs in ANOTHER interpreter (different hash seed): refs restored from a pickle must equal, hash like and be found by
    refs built afresh here"""
    import pickle
    import sys
    with open(path, "rb") as fh:
        restored = pickle.load(fh)
    m, fresh = _cross_build()
    bad = []
    for a, b in zip(restored, fresh):
        if not (a == b):
            bad.append(f"restored {a!r} != fresh {b!r}")
        elif hash(a) != hash(b):
            bad.append(f"restored and fresh {a!r} are equal but hash differently")
        elif {a: 1}.get(b) != 1:
            bad.append(f"a fresh {b!r} does not find the restored one in a dictionary")
    print("CROSSPROC " + ("OK" if not bad else "BAD " + " | ".join(bad[:3])))
    sys.exit(0)


def job_crossproc(_):
    """pickle written under this interpreter's hash seed, read under another one"""
    import os
    import pickle
    import subprocess
    import sys
    import tempfile
    m, objs = _cross_build()
    issues = []
    d = tempfile.mkdtemp(prefix="c06x-", dir=os.environ.get("XV_SCRATCH_DIR", "/var/tmp"))
    fn = os.path.join(d, "refs.pkl")
    ev = 0
    try:
        with open(fn, "wb") as fh:
            pickle.dump(objs, fh)
        mine = int(os.environ.get("PYTHONHASHSEED", "0") or 0)
        for other in (mine + 101, mine + 7):
            env = dict(os.environ)
            env["PYTHONHASHSEED"] = str(other)
            p = subprocess.run([sys.executable, "-c", f"from xv.props import c06; c06.crossproc_child({fn!r})"],
                               env=env, capture_output=True, text=True, cwd=os.getcwd())
            ev += len(objs)
            line = next((l for l in p.stdout.splitlines() if l.startswith("CROSSPROC")), None)
            if line != "CROSSPROC OK":
                issues.append({"kind": "violation", "property": "C06", "finding": None, "config": {},
                               "what": f"refs pickled under hash seed {mine} and restored under hash seed {other}: "
                                       f"{line or ('child failed: ' + p.stderr[-300:])}",
                               "program": ["pickle.dump(refs) in one interpreter", f"pickle.load in another (PYTHONHASHSEED={other}); compare with fresh refs"],
                               "case": {"crossproc": True}})
    finally:
        import shutil
        shutil.rmtree(d, ignore_errors=True)
    return {"evaluations": ev, "issues": issues}


def plan(tier, seed):
    return {"level": LEVEL,
            "jobs": [{"name": "paths", "mode": "compiled", "hashseed": seed % 2 ** 32, "nproc": 14, "timeout": 3000,
                      "args": {"tier": tier}}],
            "assumptions": ["container labels are identifiers; keys within one pool are pairwise unequal as Python values "
                            "(no 1 / 1.0 / True aliases), so structural path equality is tuple equality",
                            "attribute steps with arbitrary string names are built with getattr(ref, name)"]}


def run_job(job):
    tier = job["args"]["tier"]
    _setup(tier)
    n = len(_STATE["paths"])
    rows = list(range(n))
    chunks = E.chunked(rows, max(1, n // (job.get("nproc", 1) * 8)))
    r = E.pmap(job_pairs, chunks, job.get("nproc", 1))
    out = {"pairs": r["evaluations"], "eq_true": r.get("eq_true", 0), "paths": n, "issues": r["issues"], "wall_s": r["wall_s"]}
    for name, fn in (("dicts", job_dicts), ("exprs", job_exprs), ("family", job_family), ("crossproc", job_crossproc)):
        x = fn(None)
        out["issues"].extend(x.pop("issues"))
        out[name] = x
    return out


def finish(plan_, results):
    r = results[0]
    cov = {"evaluations": r["pairs"] + r["dicts"]["evaluations"] + r["exprs"]["evaluations"] + r["family"]["evaluations"] + r["crossproc"]["evaluations"],
           "refs_restored_under_another_hash_seed": r["crossproc"]["evaluations"],
           "distinct_nontrivial": r["paths"] + r["exprs"]["distinct_texts"],
           "paths": r["paths"], "pairs_compared": r["pairs"], "pairs_equal": r["eq_true"],
           "dict_entries": r["dicts"]["dict_size"], "expression_trees_built_twice": r["exprs"]["evaluations"],
           "large_family_refs": r["family"]["evaluations"], "large_family_distinct_hashes": r["family"]["family_distinct_hashes"], "hash_spread_paths_vs_distinct_hashes": r["family"]["hash_spread"],
           "exhaustive": True,
           "rule": "all paths (two labels x item/attr steps over the key pool: depth 1-2 full pool, depth 3-4 sub-pool; the default label '_' with "
                   "members named like the other containers; the container refs themselves), one copy built over empty containers, the other "
                   "by another manager over containers in which every path resolves to a five-entry list; ALL ordered pairs "
                   "compared; distinct_nontrivial = distinct paths + distinct expression texts",
           "samples": [{"keys": STR_KEYS[:8] + [repr(k) for k in OTHER_KEYS[:5]]},
                       {"pair": ["getattr(s, 'a.b')", "s.a.b"], "expected": "different"}]}
    return cov, r["issues"]


def replay(issue):
    import ast
    import xdeps
    case = issue["case"]
    if "pair" in case:
        m = xdeps.Manager()
        roots = {"s": m.ref({}, "s"), "t": m.ref({}, "t"), "_": m.ref({})}
        m2 = xdeps.Manager()
        roots2 = {"s": m2.ref(Universal(), "s"), "t": m2.ref(Universal(), "t"), "_": m2.ref(Universal())}
        p1, p2 = (ast.literal_eval(x) for x in case["pair"])
        a, b = build(roots, p1), build(roots2, p2)
        same = p1 == p2
        bad = (a == b) != same or (same and hash(a) != hash(b)) or ({a: 1}.get(b) == 1) != same
        return {"still_fails": bool(bad), "what": f"{a!r} vs {b!r}: == {a == b}, hash equal {hash(a) == hash(b)}"}
    if case.get("crossproc"):
        r = job_crossproc(None)
    elif "expr" in case:
        r = job_exprs(None)
    else:
        r = job_family(None)
    return {"still_fails": bool(r["issues"]), "what": r["issues"][0]["what"] if r["issues"] else "ok"}
