"""C01 — expression-defined locations always equal their definition on
current data (model checking: exhaustive assignment histories + a finite
deep/wide graph family)."""
import itertools
import sys
import time

from .. import mgr
from ..mgr import ManagerSystem, WORLDS
from . import common

LEVEL = "model_checking"

CFG_FULL = {
    "values": (3, 5), "templates": ("mul2", "inc", "add"),
    "iops": (("add", ("lit", 1)), ("mul", ("src",))),
    "unreg": True, "setc": True, "funs": ("F1",), "knobs": ("K1",),
}
CFG_MIX = {
    "values": (3,), "index_values": (0, 1), "templates": ("mul2", "add", "dbl", "total", "dyn", "dynx", "abs2", "pair1", "cplx"),
    "iops": (("sub", ("lit", 1)),), "unreg": True, "setc": True, "funs": ("F1",), "knobs": ("K1",),
}
# fsetset: an assignment whose first attempt fails at its first dependant write (caught by the caller) and which is then repeated
CFG_REDUCED = {"values": (3,), "templates": ("mul2", "inc"), "unreg": True, "fsetset": True}
CFG_REDUCED_T = {"values": (3,), "templates": ("mul2", "inc", "neg"), "iops": (("add", ("lit", 1)),),
                 "unreg": True}

# in-place operators whose operand is a REF, on few locations, deeper
# ... and REPEATED in-place updates with a plain operand on an expression-defined location ((e - 1) - 1)
CFG_IOPREF = {"values": (3, 5), "templates": ("mul2",), "iops": (("add", ("src",)), ("sub", ("src",)), ("mul", ("lit", 2)), ("sub", ("lit", 1))),
              "unreg": True, "leaves_n": 3}
# two linear knobs sharing a target, plain values assigned to knob targets, a reader of a knob target
CFG_KNOBS = {"values": (3, 5), "templates": ("mul2",), "knobs": ("K1", "K2")}
# a reader of a whole container, a reader of one member and of the first reader's result, pushes into the member; functions
# generated for two inputs (the start set of an update has several members)
CFG_DIAMOND = {"values": (), "templates": ("total", "add", "mul2"), "leaves": [mgr.P("b"), mgr.P("c")],
               "sources": [mgr.P("n", "x"), mgr.P("b"), mgr.P("a")],
               "extra": [("set", mgr.P("n", "x"), 5), ("set", mgr.P("a"), 3), ("callfun", (mgr.P("a"), mgr.P("n", "x")), (7, 11)),
                         ("callfun", (mgr.P("n", "y"), mgr.P("a")), (2, 9)), ("callfun", (mgr.P("n", "x"), mgr.P("n", "y")), (4, 6))]}
# special float values (zero, infinity) through products and sums: a definition holds for them as for any other value
CFG_SPECIAL = {"values": (0.0, float("inf"), -2.5), "templates": ("mul", "add", "neg"), "leaves_n": 3}
# the mixed world over a reduced alphabet (one template of each structural kind), one level deeper
CFG_MIXR = {"values": (3,), "index_values": (1,), "templates": ("mul2", "total", "dyn", "dynx", "pair1"), "unreg": True, "setc": True,
            "funs": ("F1",), "knobs": ("K1",), "sources_n": 3}
# values chosen so that a plain assignment can COINCIDE with what the location already holds through its definition
# (W-flat starts with a=1, b=2, c=4: b = 2*a holds 2, c = 2*b holds 4)
CFG_COINCIDE = {"values": (2, 4, 8), "templates": ("mul2",), "unreg": True, "leaves_n": 3}
ALPHABETS = {"coincide": CFG_COINCIDE, "mixr": CFG_MIXR, "special": CFG_SPECIAL, "diamond": CFG_DIAMOND, "full": CFG_FULL, "mix": CFG_MIX, "reduced": CFG_REDUCED, "reduced_t": CFG_REDUCED_T, "iopref": CFG_IOPREF, "knobs": CFG_KNOBS}


def alphabet_for(world, name):
    cfg = dict(ALPHABETS[name])
    if cfg.pop("fsetset", False):
        cfg["extra"] = list(cfg.get("extra", [])) + [("fsetset", L, 5, 1) for L in world["leaves"]]
    n = cfg.pop("leaves_n", None)
    if n:
        cfg["leaves"] = world["leaves"][:n]
        cfg["sources"] = world["leaves"][:n]
    n = cfg.pop("sources_n", None)
    if n:
        cfg["sources"] = world["leaves"][::2][:n]
    return cfg


class System(ManagerSystem):
    prop = "C01"
    report_known = True


def plan(tier, seed):
    seeds = common.seeds_for(tier, seed, thorough=(0, 1, 2, 3))
    jobs = []
    if tier == "quick":
        runs = [("W-nest", "full", 2), ("W-nest-4", "reduced", 4), ("W-mix", "mix", 2), ("W-flat", "iopref", 4), ("W-knobs", "knobs", 4), ("W-nest", "diamond", 4), ("W-flat", "special", 3), ("W-flat", "coincide", 4)]
        fam_sizes, fam_big = (1, 10, 100, 900, 1100), (3000,)
    else:
        runs = [("W-nest", "full", 3), ("W-nest-small", "reduced_t", 3), ("W-nest-small", "reduced", 4),
                ("W-mix", "mix", 2), ("W-mix", "mixr", 3), ("W-flat", "iopref", 5), ("W-nest-4", "iopref", 4), ("W-knobs", "knobs", 5),
                ("W-nest", "diamond", 5), ("W-flat", "special", 4), ("W-flat", "coincide", 5)]
        fam_sizes, fam_big = (1, 10, 100, 900, 1100, 3000), (20000,)
    for hs in seeds:
        for wname, alpha, depth in runs:
            jobs.append({"name": f"bfs:{wname}:{alpha}:d{depth}:seed{hs}", "mode": "compiled",
                         "hashseed": hs, "nproc": 4 if tier == "quick" else 8, "timeout": 3000,
                         "args": {"kind": "bfs", "world": wname, "alphabet": alpha, "depth": depth,
                                  "time_cap": 1500}})
    jobs.insert(0, {"name": "family", "mode": "compiled", "hashseed": seeds[0], "nproc": 6, "timeout": 3000,
                    "args": {"kind": "family", "sizes": fam_sizes, "big": fam_big}})
    return {"level": LEVEL, "jobs": jobs,
            "assumptions": [
                "containers are only changed through refs (the property's exclusion)",
                "value alphabet is {3, 5}; value semantics of operators are C04's subject",
                "function / linear-knob tasks are declared on flat locations with exact target sets",
                "histories deeper than the completed depth are covered only by the parametric graph family",
            ]}


def run_job(job):
    a = job["args"]
    if a["kind"] == "bfs":
        s = System(WORLDS[a["world"]], alphabet_for(WORLDS[a["world"]], a["alphabet"]), common.config_info(job))
        return common.run_bfs(s, job)
    return run_family(job)


# ----------------------------------------------------------------- family


def _family_cases(sizes, big=()):
    for shape in ("chain", "fanout", "tree", "diamonds"):
        for container in ("flat", "nested", "list"):
            for order in ("producer_first", "consumer_first"):
                for n in (tuple(sizes) + tuple(big) if order == "producer_first" else sizes):
                    # n counts tasks: a ladder of n // 3 diamonds, a tree of n internal nodes
                    k = max(1, n // 3) if shape == "diamonds" else n
                    yield (shape, container, order, k, None)
    for shape, n in (("chain", 2), ("chain", 3), ("chain", 4), ("chain", 5), ("diamonds", 1), ("diamonds", 2),
                     ("tree", 3)):
        ndefs = len(_build_case(shape, "flat", n)[0])
        for perm in itertools.permutations(range(ndefs)):
            for container in ("flat", "nested"):
                yield (shape, container, "perm", n, perm)


def _build_case(shape, container, n):
    """Returns (data, definitions [(target_key, fn(getter)->value, refexpr builder)], leaves)."""
    # nodes are integer ids; key(i) gives the container key
    defs = []   # (target id, list of source ids, combiner name)
    if shape == "chain":
        leaves = [0]
        for i in range(1, n + 1):
            defs.append((i, [i - 1], "inc"))
        nn = n + 1
    elif shape == "fanout":
        leaves = [0]
        for i in range(1, n + 1):
            defs.append((i, [0], "mul2"))
        nn = n + 1
    elif shape == "tree":
        # binary fan-in tree with n internal nodes: node i reads 2i+1, 2i+2
        nn = 2 * n + 1
        leaves = list(range(n, nn))
        for i in range(n - 1, -1, -1):
            defs.append((i, [2 * i + 1, 2 * i + 2], "add"))
    elif shape == "diamonds":
        # ladder: t0 leaf; for each rung k: l_k = t_k+1, r_k = 2*t_k, t_{k+1} = l_k + r_k
        leaves = [0]
        nid = 1
        top = 0
        for _ in range(n):
            l, r, t = nid, nid + 1, nid + 2
            nid += 3
            defs.append((l, [top], "inc"))
            defs.append((r, [top], "mul2"))
            defs.append((t, [l, r], "add"))
            top = t
        nn = nid
    else:
        raise ValueError(shape)
    return defs, leaves, nn


def _expected(defs, vals):
    out = dict(vals)
    for tgt, srcs, comb in defs:   # defs are listed in dependency order
        if comb == "inc":
            out[tgt] = out[srcs[0]] + 1
        elif comb == "mul2":
            out[tgt] = 2 * out[srcs[0]]
        else:
            out[tgt] = out[srcs[0]] + out[srcs[1]]
    return out


def _run_case(case):
    import xdeps
    shape, container, order, n, perm = case
    defs, leaves, nn = _build_case(shape, container, n)
    if container == "flat":
        data = {f"v{i}": 0 for i in range(nn)}
        def key(r, i): return r[f"v{i}"]
        def get(i): return data[f"v{i}"]
    elif container == "nested":      # one nested dict per node (no shared owner)
        data = {f"c{i}": {"v": 0} for i in range(nn)}
        def key(r, i): return r[f"c{i}"]["v"]
        def get(i): return data[f"c{i}"]["v"]
    else:                            # one single-element list per node
        data = {f"l{i}": [0] for i in range(nn)}
        def key(r, i): return r[f"l{i}"][0]
        def get(i): return data[f"l{i}"][0]
    m = xdeps.Manager()
    r = m.ref(data, "s")
    if order == "producer_first":
        seq = list(defs)
    elif order == "consumer_first":
        seq = list(reversed(defs))
    else:
        seq = [defs[i] for i in perm]
    label = f"{shape}/{container}/{order}/n={n}" + (f"/perm={perm}" if perm else "")
    err = None
    checks = 0
    try:
        for tgt, srcs, comb in seq:
            if comb == "inc":
                e = key(r, srcs[0]) + 1
            elif comb == "mul2":
                e = 2 * key(r, srcs[0])
            else:
                e = key(r, srcs[0]) + key(r, srcs[1])
            m.set_value(key(r, tgt), e)
        for rnd, base in enumerate((3, 11)):
            for j, lf in enumerate(leaves):
                m.set_value(key(r, lf), base + j)
                # after every single assignment the invariant must hold
                if len(leaves) <= 8 or j == len(leaves) - 1:
                    cur = {x: get(x) for x in leaves}
                    exp = _expected(defs, cur)
                    checks += 1
                    bad = [i for i in exp if get(i) != exp[i]]
                    if bad:
                        i = bad[0]
                        err = (f"after assigning leaf v{lf}={base + j}: v{i} holds {get(i)!r}, "
                               f"definition gives {exp[i]!r} ({len(bad)} stale locations)")
                        break
            if err:
                break
    except RecursionError as e:
        err = f"RecursionError while building/updating ({str(e)[:60]})"
    except Exception as e:  # noqa
        err = f"{type(e).__name__}: {e}"
    return case, label, len(defs), checks, err


def run_family(job):
    import multiprocessing as mp
    import xdeps  # noqa: imported before forking
    t0 = time.time()
    issues = []
    evaluations = 0
    nontrivial = set()
    samples = []
    outcomes = {}
    cases = list(_family_cases(tuple(job["args"]["sizes"]), tuple(job["args"].get("big", ()))))
    # largest first so the pool stays busy
    cases.sort(key=lambda c: -c[3])
    nproc = job.get("nproc", 1)
    if nproc > 1:
        pool = mp.get_context("fork").Pool(nproc)
        it = pool.imap_unordered(_run_case, cases, chunksize=1)
    else:
        pool = None
        it = map(_run_case, cases)
    max_tasks = 0
    for case, label, ndefs, checks, err in it:
        shape, container, order, n, perm = case
        evaluations += 1
        max_tasks = max(max_tasks, ndefs)
        if ndefs >= 2:
            nontrivial.add(label)
        outcomes["fail" if err else "ok"] = outcomes.get("fail" if err else "ok", 0) + 1
        if len(samples) < 4 and (ndefs in (10, 3000) or (perm and len(samples) < 2)):
            samples.append({"case": label, "definitions": ndefs, "invariant_checks": checks, "result": err or "ok"})
        if err:
            issues.append({"kind": "violation", "property": "C01", "finding": None,
                           "what": f"graph family {label}: {err}",
                           "config": common.config_info(job),
                           "program": [f"graph family case {label}"],
                           "case": {"family": [shape, container, order, n, list(perm) if perm else None]}})
    if pool:
        pool.close()
        pool.join()
    return {"kind": "family", "evaluations": evaluations, "nontrivial": len(nontrivial),
            "issues": issues, "samples": samples, "outcomes": outcomes, "max_tasks": max_tasks,
            "wall_s": time.time() - t0}


def finish(plan_, results):
    cov, issues = common.merge_bfs(results)
    fam = [r for r in results if r.get("kind") == "family"]
    for f in fam:
        cov["graph_family"] = {"cases": f["evaluations"], "nontrivial": f["nontrivial"], "largest_task_count": f["max_tasks"],
                               "outcomes": f["outcomes"], "samples": f["samples"],
                               "wall_s": round(f["wall_s"], 2),
                               "rule": "shape x container x definition order x size; every leaf assigned twice, "
                                       "all locations compared with closed-form values"}
        issues.extend(f["issues"])
    cov["samples"] = [{"history": it["program"], "verdict": it["kind"], "what": it["what"]} for it in issues[:3]]
    cov["samples"] += [c for f in fam for c in f["samples"]][:3]
    if not cov["samples"]:
        cov["samples"] = [{"note": "no issue; see graph_family.samples"}]
    cov["oracle"] = ("after every operation of every history: container contents == reference model "
                     "(trigger set run in precise data-flow order; pull invariant)")
    return cov, issues


def replay(issue):
    case = issue["case"]
    if "family" in case:
        shape, container, order, n, perm = case["family"]
        a = _run_case((shape, container, order, n, tuple(perm) if perm else None))
        b = _run_case((shape, container, order, n, tuple(perm) if perm else None))
        if a[4] != b[4]:
            raise RuntimeError(f"replay diverged: {a[4]!r} vs {b[4]!r}")
        return {"still_fails": bool(a[4]), "what": a[4] or "ok"}
    return replay_history(System, issue)


def replay_history(system_cls, issue):
    import ast
    from .. import refmodel as RM
    from ..world import World
    case = issue["case"]
    ops = [ast.literal_eval(s) for s in issue["ops"]]
    world = WORLDS[case["world"]]
    s = system_cls(world, {"extra": ops, "values": ()}, issue.get("config"))
    s.universe = ops
    hist = tuple(range(len(ops) - 1))
    out = []
    for _ in range(2):
        w = s.replay(hist)
        ms = s.model_of(hist)
        exc = None
        try:
            w.apply(ops[-1])
        except Exception as e:  # noqa
            exc = e
        ns, ex = RM.step(ms, ops[-1])
        v = mgr.judge(w, ms, ops[-1], ns, ex, exc)
        extra = s.transition_checks(w, ms, ops[-1], ns, ex, hist) if v.kind == "ok" else []
        extra += s.state_checks(w, ns, hist, ops[-1]) if v.kind == "ok" else []
        out.append((v.kind, v.what, len(extra)))
    if out[0] != out[1]:
        raise RuntimeError(f"replay diverged: {out}")
    fails = out[0][0] == "violation" or out[0][2] > 0 or (out[0][0] == "known" and issue.get("kind") != "known")
    return {"still_fails": fails, "what": f"{out[0][0]} {out[0][1]}"}
