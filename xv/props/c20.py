"""C20 — results do not depend on the build (compiled or pure Python) or the
hash seed.  Configuration enumeration: the same deterministic programs are
executed in a separate interpreter for every configuration in {extension
compiled from the working tree, pure-Python fallback} x PYTHONHASHSEED in a
range, and reduced to canonical transcripts that must be identical:

 P1  every manager history up to the depth bound over two alphabets (nested
     siblings; every expression node class) - after every operation the
     container contents and the exception type, at the end the definitions,
     dump() text, a pickle round trip and a follow-up assignment on the copy;
 P2  every expression term of the C04/C11 corpus - printed form, value (with
     type) or exception type, dependency set, equality/hash-consistency with
     an independently built copy;
 P3  all ordered pairs of an adversarial path family - the == matrix and
     dict-membership (hash-consistent) behaviour.

Histories in which the reference model says the update order is
under-determined by the recorded sibling-cycle finding are excluded from the
comparison (a static, configuration-independent criterion) and counted."""
import hashlib
import itertools
import math
import pickle

from .. import enumerate as E
from .. import mgr
from .. import refmodel as RM
from .. import terms as T
from ..mgr import WORLDS
from ..world import World
from . import common
from . import c11

LEVEL = "model_checking"

ALPHA = {
    "nest": ("W-nest-4", {"values": (3,), "templates": ("mul2", "inc"), "unreg": True}),
    "mix": ("W-mix", {"values": (3,), "index_values": (1,),
                      "templates": ("mul2", "add", "neg", "abs", "round1", "floor", "pick", "total", "dyn", "lt", "rpow"),
                      "iops": (("sub", ("lit", 1)),), "unreg": True, "setc": True, "funs": ("F1",), "knobs": ("K1",)}),
    "mixq": ("W-mix", {"values": (3,), "index_values": (1,), "templates": ("mul2", "abs", "round1", "pick", "total", "dyn", "rpow", "lt"),
                       "iops": (("sub", ("lit", 1)),), "unreg": True, "knobs": ("K1",),
                       "sources": [mgr.P("a"), mgr.P("l", 1), mgr.P("o", ("a", "q"))]}),
    # few operations, deeper: sibling members of one nested container, re-definitions, and a reader of the whole container
    "sib": ("W-nest", {"values": (), "templates": ("mul2", "inc"), "leaves": [mgr.P("n", "x"), mgr.P("n", "y")],
                       "sources": [mgr.P("a")],
                       "extra": [("set", mgr.P("a"), 5), ("set", mgr.P("a"), 3), ("def", mgr.P("b"), mgr.tmpl("total", (mgr.P("n"),)))]}),
    # a reader of a whole container, a reader of one of its members and of the first reader's result, then a push into the member;
    # and functions generated for two inputs (the start set of an update has several members)
    "diamond": ("W-nest", {"values": (), "templates": ("total", "add", "mul2"), "leaves": [mgr.P("b"), mgr.P("c")],
                           "sources": [mgr.P("n", "x"), mgr.P("b"), mgr.P("a")],
                           "extra": [("set", mgr.P("n", "x"), 5), ("set", mgr.P("a"), 3), ("callfun", (mgr.P("a"), mgr.P("n", "x")), (7, 11)),
                                     ("callfun", (mgr.P("n", "y"), mgr.P("a")), (2, 9))]}),
    # an expression that can only be evaluated while its inputs are consistent with each other (l[a - b] with b = a - 1): a task
    # that runs once too early raises where the correct order does not
    "transient": ("W-mix", {"values": (), "templates": ("dec", "dyndiff"), "leaves": [mgr.P("b"), mgr.P("k")],
                            "sources": [mgr.P("a"), mgr.P("b")],
                            "extra": [("set", mgr.P("a"), 50), ("set", mgr.P("a"), 7), ("set", mgr.P("b"), 0)]}),
    "nest_full": ("W-nest", {"values": (3, 5), "templates": ("mul2", "add"), "iops": (("add", ("lit", 1)),), "unreg": True,
                             "funs": ("F1",), "knobs": ("K1",)}),
}


def dg(x):
    return hashlib.blake2b(repr(x).encode(), digest_size=8).digest()


def norm(x):
    """transcript form of a value: containers recursively, floats with the sign of zero dropped.  (Signed zeros are not
    distinguished: they compare equal, and Cython 3.3's generic object multiply returns +0.0 for `0.0 * -3` where CPython gives
    -0.0 - reproduced with a three-line Cython module, i.e. a property of the toolchain, not of xdeps.)"""
    if isinstance(x, float):
        return 0.0 if x == 0.0 else x
    if isinstance(x, complex):
        return complex(norm(x.real), norm(x.imag))
    if isinstance(x, dict):
        return {k: norm(v) for k, v in x.items()}
    if isinstance(x, (list, tuple)):
        return type(x)(norm(v) for v in x)
    if isinstance(x, T.PObj):
        return T.PObj(**{k: norm(v) for k, v in x.__dict__.items()})
    try:
        import numpy as np
        if isinstance(x, np.ndarray) and x.dtype.kind in "fc":
            return x + 0.0
        if isinstance(x, np.floating):
            return type(x)(0.0) if x == 0.0 else x
    except ImportError:
        pass
    return x


def vdesc(o):
    """type-aware, hash-seed independent description of an outcome"""
    if o[0] != "ok":
        return o[0]
    v = norm(o[1])
    return f"{type(v).__name__}:{v!r}"


# ----------------------------------------------------------------- P1 histories
def histories(alpha, depth):
    """all model-enabled operation sequences up to `depth` (configuration independent); yields (hist, underdetermined)"""
    wname, cfg = ALPHA[alpha]
    world = WORLDS[wname]
    universe = mgr.build_universe(world, cfg)
    out = []

    def rec(hist, ms, under):
        if hist:
            out.append((hist, under))
        if len(hist) == depth or under:
            return
        for i in mgr.enabled(ms, universe, False):
            op = universe[i]
            try:
                ns, ex = RM.step(ms, op)
            except RM.ModelError:
                continue
            except (IndexError, KeyError, ZeroDivisionError, TypeError, OverflowError):
                # the definition cannot be evaluated in this state: outside the explored space (configuration independent)
                continue
            u = bool(ex.assigned is not None and ex.trigger and mgr.order_underdetermined(ns, ex.trigger))
            if ex.raises:
                continue
            rec(hist + (i,), ns, u)
    rec((), RM.MState(world), False)
    return world, universe, out


def run_history(world, universe, hist):
    w = World(world)
    tr = []
    for i in hist:
        op = universe[i]
        try:
            w.apply(op)
            tr.append(("ok", repr(norm(w.contents()))))
        except Exception as e:  # noqa
            tr.append((type(e).__name__, repr(norm(w.contents()))))
    m = w.m
    defs = sorted((str(k), str(getattr(t, "expr", type(t).__name__))) for k, t in m.tasks.items())
    tr.append(("defs", defs))
    tr.append(("dump", m.dump()))
    try:
        m2 = pickle.loads(pickle.dumps(m))
        c = World.from_manager(world, m2)
        c.apply(("set", world["leaves"][0], 9))
        tr.append(("copy", m2.dump(), repr(norm(c.contents()))))
    except Exception as e:  # noqa
        tr.append(("copy-exc", type(e).__name__))
    return tr


def job_hist(chunk):
    alpha, depth, lo, hi = chunk
    world, universe, hs = _HIST[(alpha, depth)]
    out = []
    for hist, under in hs[lo:hi]:
        if under:
            out.append(None)
        else:
            out.append(dg(run_history(world, universe, hist)))
    return {"part": [((alpha, lo), out)], "n": hi - lo}


_HIST = {}


# ----------------------------------------------------------------- P2 terms
def job_terms(chunk):
    import warnings
    warnings.simplefilter("ignore")
    lo, terms = chunk
    data, funcs, m, roots = c11.term_world()
    data2, funcs2, m2, roots2 = c11.term_world()
    out = []
    for t in terms:
        if c11.too_big(t, {"s": data, "f": funcs}):
            out.append(b"skip")
            continue
        try:
            e = T.to_ref(t, roots)
            e2 = T.to_ref(t, roots)
        except Exception as ex:  # noqa
            out.append(dg(("unbuildable", type(ex).__name__)))
            continue
        if not hasattr(e, "_get_value"):
            out.append(dg(("plain", repr(e))))
            continue
        val = vdesc(E.outcome(lambda: e._get_value()))
        deps = E.outcome(lambda: sorted(str(x) for x in e._get_dependencies()))
        # every interaction is an outcome (value or exception type): an exception in ONE configuration is a difference, not a crash
        eq = E.outcome(lambda: (e == e2, hash(e) == hash(e2), {e: 1}.get(e2) == 1))
        out.append(dg((E.outcome(lambda: str(e)), val, deps, eq)))
    return {"part": [(("terms", lo), out)], "n": len(terms)}


# ----------------------------------------------------------------- P3 path pairs
PKEYS = ["a", "a.b", "a']['b", "a['b']", "s", "s.a", "", "é", "1", "(1, 2)", "-1", 0, 1, -1, 0.5, (1, 2), ("a", 1), (1,)]


def job_paths(_):
    import xdeps
    import xdeps.refs as refs
    m = xdeps.Manager()
    roots = {"s": m.ref({}, "s"), "t": m.ref({}, "t")}
    steps = [("i", k) for k in PKEYS] + [("a", k) for k in PKEYS if isinstance(k, str)]
    paths = []
    for lab in ("s", "t"):
        for a in steps:
            paths.append((lab, a))
            for b in steps[::2]:
                paths.append((lab, a, b))

    def build(p):
        r = roots[p[0]]
        for kind, key in p[1:]:
            if kind == "i":
                r = r[key]
            else:
                r = getattr(r, key) if (key and not key.startswith("__")) else refs.AttrRef(r, key, m)
        return r
    A = [build(p) for p in paths]
    B = [build(p) for p in paths]
    d = {}
    for i, x in enumerate(A):
        d.setdefault(x, i)
    rows = []
    for i, x in enumerate(A):
        row = bytes(1 if x == y else 0 for y in B)
        rows.append(dg((row, d.get(B[i]), str(x))))
    return {"part": [(("paths", 0), rows)], "n": len(paths) ** 2}


# ----------------------------------------------------------------- P4 unusual keys / attribute names
ATTR_POOL = ["mro", "__name__", "__qualname__", "__mro__", "__bases__", "__base__", "__flags__", "__dictoffset__", "__basicsize__",
             "__subclasses__", "__prepare__", "__text_signature__", "real", "imag", "keys", "items", "T", "shape", "x", "abc", "copy"]


def job_unusual(_):
    """attribute-style assignment of fields with unusual names (names that are attributes of the metaclass, of numbers, of
    dicts) through every kind of ref, and item keys that are numpy scalars.  Names that are attributes of the ref object
    itself are excluded: the library documents that case as build-dependent."""
    import numpy as np
    import xdeps
    out = []
    for kind in ("ref.obj", "ref.nested-obj", "refattr"):
        for name in ATTR_POOL:
            m = xdeps.Manager()
            obj = T.PObj(q=1.0)
            data = {"o": T.PObj(q=2.0), "q": 3.0, "d": 0.0}
            if kind == "ref.obj":
                r, holder, target = m.ref(obj, "s"), obj, obj
            elif kind == "ref.nested-obj":
                top = m.ref(data, "s")
                r, holder, target = top["o"], data, data["o"]
            else:
                r, holder, target = m.refattr(data, "s"), data, data
            if name in dir(r):
                out.append(dg((kind, name, "excluded")))
                continue
            tr = [kind, name]
            # a dependant of the field, defined first
            try:
                dep = m.ref({"out": None}, "w")
                dep["out"] = getattr(r, name) * 2 if not isinstance(target, dict) or True else None
                tr.append("dep-defined")
            except Exception as e:  # noqa
                tr.append(("dep-exc", type(e).__name__))
                dep = None
            try:
                setattr(r, name, 42.0)
                tr.append("ok")
            except Exception as e:  # noqa
                tr.append(type(e).__name__)
            got = target.get(name, "<absent>") if isinstance(target, dict) else target.__dict__.get(name, "<absent>")
            tr.append(repr(got))
            tr.append(repr(dep._owner.get("out")) if dep is not None else None)
            tr.append(sorted(str(k) for k in m.tasks))
            out.append(dg(tr))
    # numpy scalars as item keys
    for key in (np.int64(1), np.int32(0), np.float64(0.5), np.bool_(True), np.str_("a")):
        m = xdeps.Manager()
        data = {"l": [5, 8, 13], 0.5: 7, "a": 9, True: 4, "out": None, "k2": None}
        s = m.ref(data, "s")
        tr = [repr(type(key).__name__)]
        for base in (s["l"], s):
            try:
                e = base[key]
                tr += [str(e), vdesc(E.outcome(lambda: e._get_value())), sorted(str(x) for x in e._get_dependencies()),
                       e == base[key], hash(e) == hash(base[key])]
                s["out"] = e * 2
                tr += [repr(data["out"]), m.dump()]
                tr.append(vdesc(E.outcome(lambda: xdeps.Manager().load(m.dump(), {"s": s}))))
                base[key] = 21
                tr += [repr(norm(data["out"])), repr(data["l"]), sorted(map(repr, data))]
            except Exception as ex:  # noqa
                tr.append(type(ex).__name__)
        out.append(dg(tr))
    # Python's operator / builtin protocols probed with a ref on either side, including forms the library does not define
    import operator as op_
    m = xdeps.Manager()
    data = {"a": 7, "b": 2.5, "l": [1, 2, 3]}
    s = m.ref(data, "s")
    probes = []
    binfuncs = [("divmod", divmod), ("pow", pow), ("add", op_.add), ("sub", op_.sub), ("mul", op_.mul), ("matmul", op_.matmul),
                ("truediv", op_.truediv), ("floordiv", op_.floordiv), ("mod", op_.mod), ("lshift", op_.lshift), ("rshift", op_.rshift),
                ("and", op_.and_), ("or", op_.or_), ("xor", op_.xor), ("lt", op_.lt), ("ge", op_.ge), ("eq", op_.eq), ("ne", op_.ne)]
    for name, fn in binfuncs:
        for lhs, rhs, lab in ((5, s["a"], "num,ref"), (s["a"], 5, "ref,num"), (2.5, s["b"], "float,ref"), (s["a"], s["b"], "ref,ref")):
            probes.append((f"{name}({lab})", lambda fn=fn, lhs=lhs, rhs=rhs: fn(lhs, rhs)))
    unfuncs = [("neg", op_.neg), ("pos", op_.pos), ("invert", op_.invert), ("abs", abs), ("round", round), ("trunc", math.trunc),
               ("floor", math.floor), ("ceil", math.ceil), ("int", int), ("float", float), ("complex", complex), ("bool", bool),
               ("index", op_.index), ("len", len), ("iter", iter), ("hash", lambda r: isinstance(hash(r), int)), ("repr", repr),
               ("pow3", lambda r: pow(r, 2, 5)), ("round2", lambda r: round(r, 1))]
    for name, fn in unfuncs:
        for r, lab in ((s["a"], "item"), (s["l"], "list-item"), (s, "container")):
            probes.append((f"{name}({lab})", lambda fn=fn, r=r: fn(r)))
    # the floating-point environment: subnormal operands and results must survive (a build that switches flush-to-zero on
    # for the interpreter would turn them into 0.0)
    data["tiny"] = 1e-310
    data["p"] = 1e-200
    data["q"] = 1e-120
    for label, thunk in (("subnormal operand", lambda: s["tiny"] * 1.0), ("subnormal product", lambda: s["p"] * s["q"]),
                         ("subnormal sum", lambda: s["tiny"] + s["tiny"]), ("subnormal quotient", lambda: s["p"] / 1e120),
                         ("plain python subnormal", lambda: float(repr(1e-200 * 1e-120)))):
        probes.append((label, thunk))
    # calling conventions: every one-parameter method / function the reference module defines (found in its SOURCE, which both
    # configurations share) is called BY KEYWORD on a location ref and on an operator expression
    import ast as ast_
    import os as os_
    src = os_.path.join(os_.path.dirname(xdeps.__file__), "refs.py")
    tree = ast_.parse(open(src).read())
    oneparam = set()
    for node in ast_.walk(tree):
        if isinstance(node, ast_.ClassDef):
            for fn in node.body:
                if isinstance(fn, ast_.FunctionDef) and len(fn.args.args) == 2 and fn.args.args[0].arg == "self" \
                        and not fn.args.vararg and not fn.args.kwarg and not fn.name.startswith("__"):
                    oneparam.add((fn.name, fn.args.args[1].arg))
    for mname, pname in sorted(oneparam):
        for olab in ("item", "expr"):
            for alab in ("number", "ref"):
                def thunk(mname=mname, pname=pname, olab=olab, alab=alab):
                    m2 = xdeps.Manager()
                    d2 = {"a": 7, "b": 2.5, "c": 0}
                    s2 = m2.ref(d2, "s")
                    obj = s2["a"] if olab == "item" else s2["a"] + s2["b"]
                    arg = 2 if alab == "number" else s2["b"]
                    res = getattr(obj, mname)(**{pname: arg})
                    return (type(res).__name__, repr(sorted(d2.items())), sorted(str(k) for k in m2.tasks))
                probes.append((f"{mname}({pname}=<{alab}>) on {olab}", thunk))
    # programs over TWO managers: a definition in one reads a location of the other
    for form in ("alias", "expr", "call", "iop", "set_value", "attr"):
        def thunk2(form=form):
            mc, md = xdeps.Manager(), xdeps.Manager()
            cd, dd = {"a": 2, "z": 0, "o": T.PObj(q=1.0)}, {"k": 5}
            c, d = mc.ref(cd, "c"), md.ref(dd, "d")
            if form == "alias":
                c["z"] = d["k"]
            elif form == "expr":
                c["z"] = c["a"] * d["k"] + 1
            elif form == "call":
                c["z"] = abs(d["k"] - c["a"])
            elif form == "iop":
                c["z"] += d["k"]
            elif form == "set_value":
                mc.set_value(c["z"], d["k"] * 2)
            else:
                c["o"].q = d["k"] + c["a"]
            c["a"] = 7
            return (repr(sorted((k, v if not isinstance(v, T.PObj) else sorted(v.__dict__.items())) for k, v in cd.items())), mc.dump(), md.dump(),
                    sorted(str(k) for k in mc.tasks))
        probes.append((f"two managers: {form}", thunk2))
    # one manager, several top-level containers with definitions in each: the dump is an ORDERED list
    for labels in (("alpha", "beta", "gamma"), ("v", "w", "x", "y"), ("s", "t")):
        def thunk3(labels=labels):
            m3 = xdeps.Manager()
            cs = {lab: {"a": i + 1, "b": 0, "c": 0} for i, lab in enumerate(labels)}
            rs = {lab: m3.ref(cs[lab], lab) for lab in labels}
            for i, lab in enumerate(labels):
                nxt = labels[(i + 1) % len(labels)]
                rs[lab]["b"] = rs[lab]["a"] * 2
                rs[nxt]["c"] = rs[lab]["b"] + rs[nxt]["a"]
            rs[labels[0]]["a"] = 10
            return (m3.dump(), repr(sorted((lab, sorted(c.items())) for lab, c in cs.items())))
        probes.append((f"several containers: {labels}", thunk3))
    for label, thunk in probes:
        o = E.outcome(thunk)
        if o[0] == "ok":
            v = o[1]
            if hasattr(v, "_get_value"):
                d = [label, "expr", str(v), vdesc(E.outcome(lambda: v._get_value()))]
            else:
                d = [label, "plain", type(v).__name__, repr(v) if not hasattr(v, "__next__") else "iterator"]
        else:
            d = [label, o[0]]
        out.append(dg(d))
    return {"part": [(("unusual", 0), out)], "n": len(out)}


# ----------------------------------------------------------------- P5 operand kinds
def value_kinds():
    import numpy as np
    from fractions import Fraction
    from decimal import Decimal
    return [("int", 7), ("zero", 0), ("negint", -3), ("bool", True), ("int>2**53", 2 ** 53 + 1), ("hugeint", 10 ** 400),
            ("float", 2.5), ("negzero", -0.0), ("inf", float("inf")), ("nan", float("nan")), ("complex", 1 + 2j),
            ("Fraction", Fraction(1, 3)), ("Decimal", Decimal("1.5")), ("np.float64", np.float64(2.5)), ("np.int64", np.int64(3)),
            ("np.float32", np.float32(0.1)), ("array", np.array([1.0, 2.0])), ("intarray2d", np.array([[1, 2], [3, 4]])),
            ("str", "ab"), ("list", [1, 2]), ("tuple", (1,)), ("None", None)]


def job_kinds(_):
    """every operator and builtin of the expression classes over EVERY pair of operand value kinds (Python numbers of all widths,
    exact and inexact, numpy scalars and arrays, sequences, None), with the values held in the container (ref op ref), and with a
    literal on either side; the outcome is compared type-aware.  A build that narrows the operand types of one node shows here."""
    import warnings
    import xdeps
    warnings.simplefilter("ignore")
    kinds = value_kinds()
    out = []
    m = xdeps.Manager()
    data = {"x": None, "y": None}
    s = m.ref(data, "s")
    bins = list(T.BIN.items())
    exprs = {n: f(s["x"], s["y"]) for n, f in bins}
    for n, f in bins:
        for ka, a in kinds:
            for kb, b in kinds:
                if n in ("pow", "lshift") and isinstance(b, int) and abs(b) > 1000:
                    out.append(b"skip")
                    continue
                if n == "mul" and ((isinstance(a, int) and abs(a) > 1000 and isinstance(b, (str, list, tuple))) or
                                   (isinstance(b, int) and abs(b) > 1000 and isinstance(a, (str, list, tuple)))):
                    out.append(b"skip")
                    continue
                data["x"], data["y"] = a, b
                tr = [n, ka, kb]
                if n in exprs:
                    tr.append(vdesc(E.outcome(exprs[n]._get_value)))
                if n != "eq":
                    tr.append(vdesc(E.outcome(lambda: value_or_plain(f(s["x"], b)))))
                    tr.append(vdesc(E.outcome(lambda: value_or_plain(f(a, s["y"])))))
                out.append(dg(tr))
    uns = list(T.UN.items()) + [(n, f) for n, f in T.BUILTINS.items() if n != "divmod"]
    for n, f in uns:
        e = E.outcome(lambda: f(s["x"]))
        for ka, a in kinds:
            data["x"] = a
            if e[0] != "ok":
                out.append(dg([n, ka, e[0]]))
            else:
                out.append(dg([n, ka, vdesc(E.outcome(lambda: value_or_plain(e[1])))]))
    return {"part": [(("kinds", 0), out)], "n": len(out)}


def value_or_plain(v):
    return v._get_value() if hasattr(v, "_get_value") else v


# ----------------------------------------------------------------- driver
def sizes(tier):
    return {"nest": 3, "mixq": 2, "sib": 5, "diamond": 3, "transient": 4} if tier == "quick" else \
        {"nest": 3, "mix": 2, "nest_full": 2, "sib": 6, "diamond": 4, "transient": 5}


def plan(tier, seed):
    seeds = common.seeds_for(tier, seed, quick=(0, 1, 2, 3), thorough=tuple(range(8)))
    jobs = []
    for mode in ("compiled", "pure"):
        for hs in seeds:
            jobs.append({"name": f"{mode}:seed{hs}", "mode": mode, "hashseed": hs, "nproc": 2 if tier == "quick" else 1, "timeout": 3400,
                         "args": {"tier": tier}})
    # the slow pure-mode jobs first so that the cores stay busy
    jobs.sort(key=lambda j: j["mode"] != "pure")
    return {"level": LEVEL, "jobs": jobs,
            "assumptions": ["exceptions are compared by type, not message", "hash VALUES are not compared (they depend on the seed by design); "
                            "hash consistency (equal => same hash, same dict entry) is",
                            "histories whose update order the reference model finds under-determined by the recorded sibling-cycle finding are "
                            "excluded by a static configuration-independent criterion and counted"]}


def run_job(job):
    tier = job["args"]["tier"]
    nproc = job.get("nproc", 1)
    chunks_h = []
    nh = {}
    for alpha, depth in sizes(tier).items():
        _HIST[(alpha, depth)] = histories(alpha, depth)
        n = len(_HIST[(alpha, depth)][2])
        nh[alpha] = n
        step = 400
        chunks_h += [(alpha, depth, lo, min(lo + step, n)) for lo in range(0, n, step)]
    r1 = E.pmap_collect(job_hist, chunks_h, nproc)
    corpus = c11.term_corpus("quick")
    if tier == "quick":
        corpus = corpus[::3]
    r2 = E.pmap_collect(job_terms, [(lo, corpus[lo:lo + 500]) for lo in range(0, len(corpus), 500)], nproc)
    r3 = job_paths(None)
    r4 = job_unusual(None)
    r5 = job_kinds(None)
    parts = {}
    for r in r1 + r2 + [r3, r4, r5]:
        for key, lst in _parts(r):
            parts[key] = lst
    under = sum(1 for k, lst in parts.items() for x in lst if x is None)
    return {"kind": "transcripts", "parts": parts, "config": common.config_info(job), "histories": nh, "terms": len(corpus),
            "path_pairs": r3["n"], "underdetermined": under}


def _parts(r):
    p = r.get("part", [])
    return p


def finish(plan_, results):
    issues = []
    ref = results[0]
    keys = sorted(ref["parts"], key=repr)
    programs = sum(len(ref["parts"][k]) for k in keys)
    compared = 0
    mism = 0
    for r in results[1:]:
        for k in keys:
            a, b = ref["parts"][k], r["parts"].get(k)
            if b is None or len(a) != len(b):
                issues.append(_issue(("corpus", k), ref["config"], r["config"], "the program lists differ between configurations (harness)", None))
                continue
            for i, (x, y) in enumerate(zip(a, b)):
                if x is None or y is None:
                    if x is not y:
                        issues.append(_issue((k, i), ref["config"], r["config"], "order-underdetermined marking differs (harness)", None))
                    continue
                compared += 1
                if x != y:
                    mism += 1
                    if len(issues) < 25:
                        issues.append(_issue((k, i), ref["config"], r["config"],
                                             "transcripts differ between configurations", {"digests": [x.hex(), y.hex()]}))
    cov = {"states": programs, "transitions": compared + programs, "traces_validated_against_impl": programs * len(results),
           "programs": programs, "configurations": [r["config"] for r in results], "transcripts_compared": compared, "mismatches": mism,
           "histories_per_alphabet": ref["histories"], "terms": ref["terms"], "path_pairs": ref["path_pairs"],
           "histories_excluded_order_underdetermined": ref["underdetermined"], "exhaustive": True,
           "evaluations": programs * len(results), "distinct_nontrivial": programs,
           "samples": [{"program": "history #0 of alphabet 'nest'", "transcript": "contents after every operation, exception types, definitions, "
                                                                                   "dump(), pickle copy dump and contents after a follow-up"},
                       {"program": "term", "transcript": "printed form, value with type / exception type, dependencies, equality and hash consistency"}]}
    return cov, issues


def describe_program(key, idx):
    kind = key[0]
    if kind in ALPHA:
        # histories are enumerated chunk-wise: key = (alpha, lo)
        return [f"history #{key[1] + idx} of alphabet {kind!r} (depth bound per tier); see replay"]
    if kind == "terms":
        return [f"term #{key[1] + idx} of the C11 corpus"]
    if kind == "unusual":
        n = len(ATTR_POOL)
        if idx < 3 * n:
            return [f"attribute-style assignment of the field {ATTR_POOL[idx % n]!r} through a {('Ref over an object', 'nested AttrRef owner', 'refattr container')[idx // n]}"]
        if idx < 3 * n + 5:
            return [f"numpy scalar item key #{idx - 3 * n}"]
        return [f"operator / builtin protocol probe #{idx - 3 * n - 5} (see job_unusual)"]
    return [f"path #{idx} of the path family vs all others"]


def _issue(where, cfg_a, cfg_b, what, detail):
    key, idx = where if isinstance(where[0], tuple) else (where, 0)
    return {"kind": "violation", "property": "C20", "finding": None, "what": f"{what}: {cfg_a} vs {cfg_b}", "config": cfg_b,
            "program": describe_program(key, idx) if isinstance(key, tuple) else [repr(where)], "detail": detail,
            "case": {"key": repr(key), "index": idx, "configs": [cfg_a, cfg_b], "detail": detail}}


def replay(issue):
    """re-executes the program under the configuration named in the issue and compares with the digest recorded for the other one"""
    import ast
    case = issue["case"]
    key = ast.literal_eval(case["key"])
    idx = case["index"]
    det = case.get("detail") or {}
    want_other = (det.get("digests") or [None, None])[0]
    kind = key[0]
    if kind in ALPHA:
        for tier in ("quick", "thorough"):
            depth = sizes(tier)[kind]
            world, universe, hs = histories(kind, depth)
            if key[1] + idx < len(hs):
                hist, under = hs[key[1] + idx]
                got = dg(run_history(world, universe, hist)).hex()
                ops = [mgr.op_str(universe[i]) for i in hist]
                return {"still_fails": got != want_other, "what": f"history {ops}: digest {got} vs {want_other} in the other configuration"}
    if kind == "terms":
        corpus = c11.term_corpus("quick")
        for cand in (corpus[::3], corpus):
            if key[1] + idx < len(cand):
                r = job_terms((0, [cand[key[1] + idx]]))
                got = r["part"][0][1][0].hex()
                if got == want_other:
                    return {"still_fails": False, "what": "digests agree"}
        return {"still_fails": True, "what": "term transcript still differs from the other configuration"}
    r = job_unusual(None) if kind == "unusual" else job_paths(None)
    got = r["part"][0][1][idx].hex()
    return {"still_fails": got != want_other, "what": f"{kind} case #{idx}: digest {got} vs {want_other} in the other configuration"}
