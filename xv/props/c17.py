"""C17 — a frozen manager's expression graph cannot change, yet values still
propagate.  Model checking over phased histories

    h1 (<= H1 operations) . freeze . c1..ck (k <= K, every API call) . unfreeze . h2 (<= H2)

While frozen, a call the model says must be rejected has to raise ValueError
and leave the *entire* concrete state (data, definitions, the four indices
with their order, flag) identical to the state before the call; value
assignments to expression-less locations are judged against the reference
model like any other update.  At unfreeze the state must be identical to the
never-frozen twin (same history without freeze/unfreeze and without the
rejected calls)."""
from .. import mgr
from .. import refmodel as RM
from .. import terms as T
from ..mgr import ManagerSystem, WORLDS
from . import common
from .c01 import replay_history
from .c03 import _loads, check_indices

LEVEL = "model_checking"


def frozen_only(world):
    """definitions offered ONLY to a frozen manager (where the model needs no semantics for them: they must be rejected before
    anything happens): an operand that does not exist (evaluating it raises KeyError) and a call whose evaluation writes to the data"""
    L, X = world["leaves"][0], world["leaves"][1]
    miss = ("bin", "add", ("loc", mgr.P("zz")), ("lit", 1))
    touch = ("call", "touch", (("loc", X),), ())
    return [("def", L, miss), ("def", L, touch), ("iop", L, "add", ("loc", mgr.P("zz"))), ("iop", X, "mul", touch)]


def alphabet(world, full):
    loads = _loads(world)
    copyfrom = [("copyfrom", op[1], op[2]) for op in loads[:6]]
    cfg = {
        # constcall / the literal-only definition below: expressions that read NO location (empty dependency set) are definitions too
        "values": (3,), "templates": ("mul2", "add", "constcall") if full else ("mul2", "constcall"),
        "iops": (("add", ("lit", 1)), ("mul", ("src",))) if full else (("add", ("lit", 1)),),
        "unreg": True,
        "funs": tuple(world["funs"]), "knobs": tuple(world["knobs"]),
        "extra": [("refresh",), ("cleanup",), ("verify",), ("freeze",), ("unfreeze",)] + loads[:10] + copyfrom + frozen_only(world) +
                 [("def", world["leaves"][-1], ("bin", "mul", ("L", 2), ("L", 3)))],
    }
    return cfg


class System(ManagerSystem):
    prop = "C17"

    def __init__(self, world, cfg, info, H1, K, H2, free=False):
        super().__init__(world, cfg, info)
        self.H1, self.K, self.H2 = H1, K, H2
        self.free = free
        self.i_freeze = self.universe.index(("freeze",))
        self.i_unfreeze = self.universe.index(("unfreeze",))
        self.i_frozen_only = {self.universe.index(o) for o in frozen_only(world) if o in self.universe}

    def phase(self, hist):
        if self.i_freeze not in hist:
            return 0, len(hist)
        f = hist.index(self.i_freeze)
        if self.i_unfreeze not in hist[f:]:
            return 1, len(hist) - f - 1
        u = f + hist[f:].index(self.i_unfreeze)
        return 2, len(hist) - u - 1

    def state_extra(self, hist, opi):
        # in the phased runs the enabled operations depend on the phase and on how far it has progressed
        return None if self.free else self.phase(hist + (opi,))

    def enabled_ops(self, hist, ms):
        base = mgr.enabled(ms, self.universe, False)
        if not ms.frozen:
            base = [i for i in base if i not in self.i_frozen_only]
        if self.free:
            # freeze_tree / unfreeze_tree are ordinary operations: any number of freeze periods, redundant and unbalanced calls
            return base
        ph, n = self.phase(hist)
        if ph == 0:
            out = [i for i in base if i not in (self.i_unfreeze,)]
            if n >= self.H1:
                out = [self.i_freeze]
            return out
        if ph == 1:
            if n >= self.K:
                return [self.i_unfreeze]
            return [i for i in base if i != self.i_freeze]
        if n >= self.H2:
            return []
        return [i for i in base if i not in (self.i_freeze, self.i_unfreeze)]

    def transition_checks(self, w, ms, op, ns, ex, hist):
        issues = []
        if ms.frozen and op[0] != "unfreeze":
            rejected = ex.raises is not None
            if rejected or op[0] in ("refresh", "verify", "cleanup"):
                # full concrete state must be what it was before the call
                before = self.replay(hist)
                if op[0] in ("verify", "cleanup"):
                    # these legitimately drop empty index entries; compare after doing the same
                    before.m.cleanup()
                    w.m.cleanup()
                if mgr.canon_obs(before) != mgr.canon_obs(w):
                    issues.append(self.issue("violation", hist, op,
                                             "a call on a frozen manager changed the manager's state",
                                             {"indices_before": mgr.index_dump(before.m), "indices_after": mgr.index_dump(w.m),
                                              "tasks_before": [str(k) for k in before.m.tasks], "tasks_after": [str(k) for k in w.m.tasks]}))
            probs = check_indices(w.m, "")
            if probs:
                issues.append(self.issue("violation", hist, op, "indices inconsistent while frozen: " + probs[0]))
        if op[0] == "unfreeze":
            # never-frozen twin: same history without freeze/unfreeze and rejected calls
            twin_ops = []
            m0 = RM.MState(self.world)
            for i in hist:
                o = self.universe[i]
                m1, e1 = RM.step(m0, o)
                if o[0] not in ("freeze", "unfreeze") and not (e1.raises and m0.frozen):
                    twin_ops.append(o)
                m0 = m1
            from ..world import World
            tw = World(self.world)
            try:
                for o in twin_ops:
                    tw.apply(o)
            except Exception as e:  # noqa
                issues.append(self.issue("violation", hist, op, f"never-frozen twin raised {type(e).__name__}: {e}"))
                return issues
            if mgr.canon_obs(tw) != mgr.canon_obs(w):
                issues.append(self.issue("violation", hist, op,
                                         "state after unfreeze differs from the manager that was never frozen",
                                         {"indices": mgr.index_dump(w.m), "twin_indices": mgr.index_dump(tw.m),
                                          "contents": repr(w.contents()), "twin_contents": repr(tw.contents())}))
        return issues


def tiny_alphabet(world):
    leaves = world["leaves"][:3]
    return {"leaves": leaves, "sources": leaves, "values": (3, 5), "templates": ("mul2",), "unreg": False,
            "extra": [("freeze",), ("unfreeze",), ("refresh",)] + frozen_only(world)[:2]}


def plan(tier, seed):
    seeds = common.seeds_for(tier, seed, quick=(0,), thorough=(0, 1, 2))
    jobs = []
    for wname, depth in ([("W-flat", 7), ("W-nest-4", 6)] if tier == "quick" else [("W-flat", 9), ("W-nest-4", 8), ("W-nest", 8)]):
        jobs.append({"name": f"bfs-free:{wname}:tiny:d{depth}:seed{seeds[0]}", "mode": "compiled", "hashseed": seeds[0],
                     "nproc": 4 if tier == "quick" else 8, "timeout": 3000,
                     "args": {"world": wname, "free": True, "depth": depth, "time_cap": 1500}})
    if tier == "quick":
        runs = [("W-nest-4", False, 1, 2, 1), ("W-flat", True, 1, 1, 1), ("W-nest", True, 0, 2, 0), ("W-nest-4", False, 2, 1, 0),
                ("W-knobs", False, 1, 2, 0), ("W-flat-refs", False, 1, 2, 0)]
    else:
        runs = [("W-nest-4", False, 2, 2, 1), ("W-flat", True, 2, 2, 1), ("W-nest", True, 1, 2, 1), ("W-mix", True, 1, 2, 0),
                ("W-knobs", True, 2, 2, 1), ("W-flat-refs", True, 2, 2, 0)]
    for hs in seeds:
        for wname, full, H1, K, H2 in runs:
            jobs.append({"name": f"bfs:{wname}:{'full' if full else 'reduced'}:h{H1}k{K}h{H2}:seed{hs}",
                         "mode": "compiled", "hashseed": hs, "nproc": 4 if tier == "quick" else 8, "timeout": 3000,
                         "args": {"world": wname, "full": full, "H1": H1, "K": K, "H2": H2,
                                  "depth": H1 + 1 + K + 1 + H2, "time_cap": 1500}})
    return {"level": LEVEL, "jobs": jobs,
            "assumptions": [
                "refresh/verify/cleanup on a frozen manager may either raise ValueError or succeed; either way nothing observable may change",
                "phased histories: h1 . freeze . k calls . unfreeze . h2 with the stated bounds over the full alphabet; plus, over a tiny "
                "alphabet (3 locations, two values, one template), freeze_tree/unfreeze_tree as ordinary operations at any point to a larger "
                "depth: several freeze periods, redundant and unbalanced calls",
            ]}


def run_job(job):
    a = job["args"]
    w = WORLDS[a["world"]]
    if a.get("free"):
        s = System(w, tiny_alphabet(w), common.config_info(job), 0, 0, 0, free=True)
    else:
        s = System(w, alphabet(w, a["full"]), common.config_info(job), a["H1"], a["K"], a["H2"])
    return common.run_bfs(s, job)


def finish(plan_, results):
    cov, issues = common.merge_bfs(results)
    cov["samples"] = [{"history": it["program"], "verdict": it["kind"], "what": it["what"]} for it in issues[:3]] or \
        [{"note": "no issue found", "frozen_calls_alphabet": "assign value/expression, in-place ops, register/unregister "
          "(function, knob, expression), load, copy_expr_from, refresh, verify, cleanup"}]
    cov["oracle"] = ("frozen + rejected call: ValueError and identical concrete state; frozen + value assignment: reference model; "
                     "unfreeze: identical to the never-frozen twin")
    return cov, issues


def replay(issue):
    import ast
    case = issue["case"]
    ops = [ast.literal_eval(s) for s in issue["ops"]]
    s = System(WORLDS[case["world"]], {"extra": ops + [("freeze",), ("unfreeze",)], "values": ()}, issue.get("config"), 99, 99, 99, free=True)
    s.universe = ops + [("freeze",), ("unfreeze",)]
    s.i_freeze = s.universe.index(("freeze",))
    s.i_unfreeze = s.universe.index(("unfreeze",))
    hist = tuple(range(len(ops) - 1))
    ms = s.model_of(hist)
    w = s.replay(hist)
    exc = None
    try:
        w.apply(ops[-1])
    except Exception as e:  # noqa
        exc = e
    ns, ex = RM.step(ms, ops[-1])
    v = mgr.judge(w, ms, ops[-1], ns, ex, exc)
    extra = s.transition_checks(w, ms, ops[-1], ns, ex, hist) if v.kind == "ok" else []
    fails = v.kind == "violation" or bool(extra)
    return {"still_fails": fails, "what": (extra[0]["what"] if extra else f"{v.kind} {v.what}")}
