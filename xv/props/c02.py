"""C02 — one assignment runs exactly the downstream tasks, once each, in
dependency order; cyclic graphs terminate with each task at most once.

Three exhaustive parts:
 (1) history exploration where every assignment is executed once per
     permutation of the start set (toposort seam) and its write trace is
     compared with the model's trigger set / precise order;
 (2) the same over an alphabet that creates genuinely cyclic definitions
     (termination, at-most-once, nothing outside the reachable set);
 (3) the sorter itself on all directed graphs with <= 4 labelled nodes.
"""
import itertools
import time

from .. import mgr
from .. import refmodel as RM
from .. import terms as T
from ..mgr import ManagerSystem, WORLDS, P
from ..world import World
from . import common
from .c01 import replay_history

LEVEL = "model_checking"
MAX_PERM = 4  # start sets up to this size are permuted exhaustively

CFG_FULL = {
    "values": (3,), "templates": ("mul2", "add"), "iops": (("add", ("lit", 1)),),
    "unreg": True, "funs": ("F1",), "knobs": ("K1",),
}
CFG_REDUCED = {"values": (3,), "templates": ("mul2", "inc"), "unreg": True, "fsetset": True}
CFG_MIX = {"values": (3,), "index_values": (1,), "templates": ("mul2", "total", "dyn", "add"),
           "setc": True, "funs": ("F1",), "knobs": ("K1",)}
CFG_DEEP = {"values": (3,), "templates": ("mul2", "size"), "unreg": True}
# freeze_tree / unfreeze_tree as ordinary operations over a tiny alphabet (a change that treats frozen updates specially)
CFG_FREEZE = {"values": (3, 5), "templates": ("mul2",), "leaves_n": 3, "extra": [("freeze",), ("unfreeze",)]}
ALPHABETS = {"full": CFG_FULL, "reduced": CFG_REDUCED, "mix": CFG_MIX, "deep": CFG_DEEP, "freeze": CFG_FREEZE}


def alphabet_for(world, name):
    cfg = dict(ALPHABETS[name])
    if cfg.pop("fsetset", False):
        # an assignment whose first attempt fails at its first dependant write (exception caught) and which is then repeated
        cfg["extra"] = list(cfg.get("extra", [])) + [("fsetset", L, 5, 1) for L in world["leaves"]]
    n = cfg.pop("leaves_n", None)
    if n:
        cfg["leaves"] = world["leaves"][:n]
        cfg["sources"] = world["leaves"][:n]
    return cfg


class StartOrder:
    """Owns the iteration order of the start set handed to toposort by
    Manager.find_taskids (module-global seam xdeps.tasks.toposort)."""

    def __init__(self):
        import xdeps.tasks as xt
        self.xt = xt
        self.orig = xt.toposort
        self.present = hasattr(xt, "toposort")
        self.perm = None
        self.seen_sizes = []
        self.calls = 0

    def install(self):
        if not self.present:
            return

        def wrapped(graph, start=None):
            if isinstance(start, (set, frozenset)):
                self.calls += 1
                lst = sorted(start, key=str)
                self.seen_sizes.append(len(lst))
                if self.perm is not None and len(self.perm) == len(lst):
                    lst = [lst[i] for i in self.perm]
                elif self.perm is not None:
                    lst = list(start)
                else:
                    lst = list(start)
                return self.orig(graph, lst)
            return self.orig(graph, start)
        self.xt.toposort = wrapped

    def remove(self):
        if self.present:
            self.xt.toposort = self.orig


class System(ManagerSystem):
    prop = "C02"
    report_known = True

    def __init__(self, *a, **k):
        super().__init__(*a, **k)
        self.seam = None

    def trace_checks(self, w, ns, ex, hist, op, perm):
        """The C02 oracle proper on one executed assignment."""
        issues = []
        order, problem = mgr.observed_order(w.trace.events, ns, ex.assigned)
        info = {"start_permutation": perm,
                "trace": [(T.path_str(p), repr(v)) for p, v in w.trace.events][:24],
                "expected_trigger": sorted(map(str, ex.trigger))}
        if order is None:
            issues.append(self.issue("violation", hist, op, "write trace is not a sequence of task runs: " + problem, info))
            return issues
        ran = set(order)
        if len(ran) != len(order):
            dup = [str(t) for t in ran if order.count(t) > 1]
            issues.append(self.issue("violation", hist, op, f"task(s) ran more than once in one update: {dup}", info))
        if ran - set(ex.trigger):
            issues.append(self.issue("violation", hist, op,
                                     f"task(s) outside the downstream set ran: {sorted(map(str, ran - set(ex.trigger)))}", info))
        if set(ex.trigger) - ran:
            issues.append(self.issue("violation", hist, op,
                                     f"downstream task(s) did not run: {sorted(map(str, set(ex.trigger) - ran))}", info))
        # FunctionTask action calls: exactly once iff triggered
        for tid, t in ns.tasks.items():
            if t.kind == "F":
                n = w.trace.calls.count(tid[1])
                if n != (1 if tid in ex.trigger else 0):
                    issues.append(self.issue("violation", hist, op,
                                             f"FunctionTask {tid[1]} action called {n} time(s)", info))
        bad = mgr.order_violations(order, ns)
        if bad:
            if all(mgr.spurious_path(ns, b, a) for a, b in bad):
                issues.append(self.issue("known", hist, op, "sibling-cycle",
                                         dict(info, violated=[(str(a), str(b)) for a, b in bad]), finding="sibling-cycle"))
            else:
                issues.append(self.issue("violation", hist, op,
                                         f"consumer ran before its producer: {[(str(a), str(b)) for a, b in bad]}", info))
        return issues

    def expand(self, hist):
        if self.seam is None:
            self.seam = StartOrder()
            self.seam.install()
        seam = self.seam
        ms = self.model_of(hist)
        children, issues = [], []
        stats = {"ops": {}, "verdicts": {}, "trigger_sizes": {}, "start_set_sizes": {}, "schedules": 0,
                 "start_sets_not_fully_permuted": 0, "seam_present": int(seam.present)}
        transitions = leaves = 0
        for opi in mgr.enabled(ms, self.universe, self.allow_cycles):
            op = self.universe[opi]
            ns, ex = RM.step(ms, op)
            # probe run (interpreter's own order) to learn the start set size
            seam.perm = None
            seam.seen_sizes = []
            perms = [None]
            first = True
            pruned = False
            child_digest = None
            while perms:
                perm = perms.pop(0)
                w = self.replay(hist)
                seam.perm = perm
                seam.seen_sizes = []
                exc = None
                try:
                    w.apply(op)
                except Exception as e:  # noqa
                    exc = e
                seam.perm = None
                transitions += 1
                stats["schedules"] += 1
                if first:
                    first = False
                    k = seam.seen_sizes[-1] if seam.seen_sizes else 0
                    if ex.assigned is not None:
                        stats["start_set_sizes"][k] = stats["start_set_sizes"].get(k, 0) + 1
                        stats["trigger_sizes"][len(ex.trigger)] = stats["trigger_sizes"].get(len(ex.trigger), 0) + 1
                    if ex.assigned is not None and seam.present and 2 <= k <= MAX_PERM:
                        perms = [p for p in itertools.permutations(range(k))]
                    elif k > MAX_PERM:
                        stats["start_sets_not_fully_permuted"] += 1
                        perms = [tuple(range(k)), tuple(reversed(range(k)))]
                v = mgr.judge(w, ms, op, ns, ex, exc)
                stats["ops"][op[0]] = stats["ops"].get(op[0], 0) + 1
                stats["verdicts"][v.kind] = stats["verdicts"].get(v.kind, 0) + 1
                if v.kind == "violation":
                    d = {"verdict": v.detail, "diff": mgr.diff_contents(w.contents(), ns.vals["s"])[:8],
                         "start_permutation": perm,
                         "trace": [(T.path_str(p), repr(val)) for p, val in w.trace.events][:20]}
                    issues.append(self.issue("violation", hist, op, v.what, d))
                    pruned = True
                    continue
                if ex.assigned is not None and exc is None:
                    issues.extend(self.trace_checks(w, ns, ex, hist, op, perm))
                if v.kind == "known":
                    pruned = True
                    stats["pruned_order_underdetermined"] = stats.get("pruned_order_underdetermined", 0) + 1
                    continue
                if child_digest is None:
                    child_digest = mgr.canon(w)
            if pruned or child_digest is None:
                leaves += 1
            else:
                children.append((child_digest, opi))
        if transitions == 0:
            leaves += 1
        return {"children": children, "transitions": transitions, "issues": issues, "stats": stats, "leaves": leaves}


# ------------------------------------------------------------ cyclic part

CYC_WORLD = {"name": "W-cyc", "data": {"a": 1, "b": 2, "c": 4, "n": {"x": 10, "y": 20}},
             "leaves": [P("a"), P("b"), P("c"), P("n", "x"), P("n", "y")], "containers": {}, "funs": {}, "knobs": {}}
WORLDS_LOCAL = dict(WORLDS)
WORLDS_LOCAL["W-cyc"] = CYC_WORLD
CFG_CYC = {"values": (3,), "templates": ("inc", "add"), "iops": (("add", ("src",)),), "unreg": True,
           "extra": [("def", P("a"), ("bin", "add", ("loc", P("a")), ("lit", 1))),
                     ("def", P("n", "x"), ("bin", "add", ("loc", P("n", "x")), ("loc", P("n", "y"))))]}


class CyclicSystem(ManagerSystem):
    """Definitions may be mutually or self referential.  No value oracle (the
    result of a cyclic update is not defined); the oracle is termination,
    at-most-once and containment in the reachable set."""
    prop = "C02"
    allow_cycles = True

    def tasks_after(self, hist):
        """model bookkeeping of definitions only (no evaluation)"""
        key = ("cyc",) + hist
        got = self._model_cache.get(key)
        if got is not None:
            return got
        if not hist:
            tasks = {}
        else:
            prev = self.tasks_after(hist[:-1])
            tasks = dict(prev)
            op = self.universe[hist[-1]]
            self._apply_defs(tasks, op)
        self._model_cache[key] = tasks
        return tasks

    @staticmethod
    def _apply_defs(tasks, op):
        k = op[0]
        if k == "set":
            tasks.pop(("E", op[1]), None)
        elif k == "def":
            tasks.pop(("E", op[1]), None)
            tasks[("E", op[1])] = RM.expr_task(op[1], op[2])
        elif k == "iop":
            old = tasks.pop(("E", op[1]), None)
            lhs = old.term if old is not None else ("lit", 0)
            tasks[("E", op[1])] = RM.expr_task(op[1], ("bin", op[2], lhs, op[3]))
        elif k == "unreg":
            tasks.pop(("E", op[1]), None)

    def expand(self, hist):
        tasks = self.tasks_after(hist)
        children, issues = [], []
        stats = {"ops": {}, "cyclic_updates": 0, "acyclic_updates": 0, "ran_counts": {}}
        transitions = leaves = 0
        for opi, op in enumerate(self.universe):
            if op[0] == "unreg" and ("E", op[1]) not in tasks:
                continue
            w = self.replay(hist)
            exc = None
            try:
                w.apply(op)
            except Exception as e:  # noqa
                exc = e
            transitions += 1
            stats["ops"][op[0]] = stats["ops"].get(op[0], 0) + 1
            after = dict(tasks)
            self._apply_defs(after, op)
            if exc is not None:
                issues.append(self.issue("violation", hist, op, f"update raised {type(exc).__name__}: {exc}"))
                leaves += 1
                continue
            if op[0] != "unreg":
                ms = RM.MState(self.world, tasks=after)
                start, reach = ms.trigger(op[1])
                g = {a: [b for b in after if b != a and RM.p_edge(after[a], after[b])] for a in after}
                cyclic = RM.toposort_all({a: [b for b in g[a] if b in reach] for a in reach}) is None
                stats["cyclic_updates" if cyclic else "acyclic_updates"] += 1
                order, problem = mgr.observed_order(w.trace.events, ms, op[1])
                info = {"trace": [(T.path_str(p), repr(v)) for p, v in w.trace.events][:24]}
                if order is None:
                    issues.append(self.issue("violation", hist, op, "write trace is not a sequence of task runs: " + problem, info))
                else:
                    stats["ran_counts"][len(order)] = stats["ran_counts"].get(len(order), 0) + 1
                    if len(set(order)) != len(order):
                        issues.append(self.issue("violation", hist, op, "a task ran more than once in one update", info))
                    if set(order) - reach:
                        issues.append(self.issue("violation", hist, op, "a task outside the reachable set ran", info))
                    if not cyclic and set(order) != reach:
                        issues.append(self.issue("violation", hist, op, "acyclic update did not run exactly the downstream set", info))
            children.append((mgr.canon(w), opi))
        return {"children": children, "transitions": transitions, "issues": issues, "stats": stats, "leaves": leaves}


# ------------------------------------------------------------ sorter part


def _graphs(n):
    pairs = [(u, v) for u in range(n) for v in range(n)]
    for bits in range(1 << len(pairs)):
        yield [pairs[i] for i in range(len(pairs)) if bits >> i & 1]


def _start_lists(n, maxlen):
    for k in range(1, maxlen + 1):
        for p in itertools.permutations(range(n), k):
            yield list(p)


def _check_sort(n, edges, start, res):
    adj = {u: [] for u in range(n)}
    for u, v in edges:
        adj[u].append(v)
    # reachability closure
    reach = {u: {u} for u in range(n)}
    changed = True
    while changed:
        changed = False
        for u in range(n):
            for v in list(reach[u]):
                for x in adj[v]:
                    if x not in reach[u]:
                        reach[u].add(x)
                        changed = True
    want = set()
    for s in start:
        want |= reach[s]
    if not isinstance(res, list):
        return f"result is {type(res).__name__}, not a list"
    if len(res) != len(set(res)):
        return "a node is listed twice"
    if set(res) != want:
        return f"result set {sorted(res)} != reachable set {sorted(want)}"
    pos = {x: i for i, x in enumerate(res)}
    for u, v in edges:
        if u in pos and v in pos and u != v:
            same_scc = u in reach[v] and v in reach[u]
            if not same_scc and pos[u] > pos[v]:
                return f"edge {u}->{v} is not respected"
    return None


def _sorter_chunk(arg):
    from xdeps.sorting import toposort
    n, lo, hi, maxlen, sparse = arg
    pairs = [(u, v) for u in range(n) for v in range(n)]
    starts = list(_start_lists(n, maxlen))
    ev = nontrivial = 0
    bad = []
    outcomes = set()
    for bits in range(lo, hi):
        edges = [pairs[i] for i in range(len(pairs)) if bits >> i & 1]
        graph = {}
        for u, v in edges:
            graph.setdefault(u, []).append(v)
        if not sparse:
            for u in range(n):
                graph.setdefault(u, [])
        for st in starts:
            res = toposort(graph, st)
            ev += 1
            if len(res) > 1:
                nontrivial += 1
            if len(outcomes) < 5000:
                outcomes.add(tuple(res))
            err = _check_sort(n, edges, st, res)
            if err and len(bad) < 5:
                bad.append({"n": n, "edges": edges, "start": st, "result": res, "error": err})
    return ev, nontrivial, bad, len(outcomes)


def run_sorter(job):
    import multiprocessing as mp
    import xdeps.sorting  # noqa
    a = job["args"]
    t0 = time.time()
    tasks = []
    for n, maxlen in a["scopes"]:
        total = 1 << (n * n)
        step = max(1, total // 64)
        for lo in range(0, total, step):
            tasks.append((n, lo, min(total, lo + step), maxlen, False))
        if n <= 3:
            tasks.append((n, 0, total, maxlen, True))
    pool = mp.get_context("fork").Pool(job.get("nproc", 1))
    ev = nt = 0
    bad = []
    distinct = 0
    for e, n_, b, o in pool.imap_unordered(_sorter_chunk, tasks):
        ev += e
        nt += n_
        bad.extend(b)
        distinct = max(distinct, o)
    pool.close()
    pool.join()
    issues = []
    for b in bad[:20]:
        issues.append({"kind": "violation", "property": "C02", "finding": None,
                       "what": f"toposort: {b['error']}", "config": common.config_info(job),
                       "program": [f"toposort(graph with edges {b['edges']} on {b['n']} nodes, start={b['start']}) -> {b['result']}"],
                       "case": {"sorter": b}})
    return {"kind": "sorter", "evaluations": ev, "nontrivial": nt, "issues": issues, "distinct_results": distinct,
            "scopes": a["scopes"], "wall_s": time.time() - t0}


# ------------------------------------------------------------ plan


def plan(tier, seed):
    seeds = common.seeds_for(tier, seed, quick=(0, 1), thorough=(0, 1, 2, 3))
    jobs = []
    if tier == "quick":
        runs = [("W-nest", "full", 2), ("W-nest-4", "reduced", 3), ("W-mix", "mix", 2), ("W-deep", "deep", 3), ("W-flat", "freeze", 5)]
        cyc_depth = 3
        scopes = [(1, 1), (2, 2), (3, 3), (4, 3)]
    else:
        runs = [("W-nest", "full", 3), ("W-nest-4", "reduced", 4), ("W-mix", "mix", 3), ("W-deep", "deep", 4), ("W-flat", "freeze", 7),
                ("W-nest-4", "freeze", 6)]
        cyc_depth = 3
        scopes = [(1, 1), (2, 2), (3, 3), (4, 4)]
    jobs.append({"name": "sorter", "mode": "compiled", "hashseed": 0, "nproc": 8, "timeout": 3000,
                 "args": {"kind": "sorter", "scopes": scopes}})
    jobs.append({"name": "deep-graphs", "mode": "compiled", "hashseed": seeds[-1], "nproc": 4, "timeout": 3000,
                 "args": {"kind": "deepgraphs", "sizes": (50, 900, 1500, 4000) if tier == "quick" else (50, 900, 1100, 1500, 4000, 6000)}})
    for hs in seeds:
        for wname, alpha, depth in runs:
            jobs.append({"name": f"bfs:{wname}:{alpha}:d{depth}:seed{hs}", "mode": "compiled", "hashseed": hs,
                         "nproc": 4 if tier == "quick" else 8, "timeout": 3000,
                         "args": {"kind": "bfs", "world": wname, "alphabet": alpha, "depth": depth, "time_cap": 1500}})
        jobs.append({"name": f"cyclic:d{cyc_depth}:seed{hs}", "mode": "compiled", "hashseed": hs,
                     "nproc": 4 if tier == "quick" else 8, "timeout": 1200, "timeout_is_violation": True,
                     "args": {"kind": "cyclic", "depth": cyc_depth, "time_cap": 900}})
    return {"level": LEVEL, "jobs": jobs,
            "assumptions": [
                "'depends on' is the documented dependency notion (owners and computed keys included); ordering obligations use precise overlap only",
                f"start sets of size <= {MAX_PERM} are permuted exhaustively through the module-global toposort seam; larger ones run in identity/reversed/interpreter order and are counted",
                "FunctionTask actions write their containers directly (no re-entrant set_value)",
                "a hang of the cyclic search (job timeout) is reported as a violation of the termination clause",
            ]}


def run_job(job):
    a = job["args"]
    if a["kind"] == "sorter":
        return run_sorter(job)
    if a["kind"] == "deepgraphs":
        return run_deepgraphs(job)
    if a["kind"] == "cyclic":
        return common.run_bfs(CyclicSystem(CYC_WORLD, CFG_CYC, common.config_info(job)), job)
    s = System(WORLDS[a["world"]], alphabet_for(WORLDS[a["world"]], a["alphabet"]), common.config_info(job))
    return common.run_bfs(s, job)


def _deep_case(case):
    """chain v[i+1] = v[i] + 1 of n tasks with side branches hanging off early links (registered before the next link) and a second,
    shallow start task; ONE assignment at the head: every task runs exactly once, producers first, nothing else is written."""
    import xdeps
    from ..world import LogDict, Trace
    n, order, branches = case
    tr = Trace()
    data = LogDict({f"v{i}": 0 for i in range(n + 1)}, ("s",), tr)
    for b in range(branches):
        dict.__setitem__(data, f"leaf{b}", 0)
        dict.__setitem__(data, f"leaf{b}b", 0)
    dict.__setitem__(data, "side", 0)
    tr2 = tr
    m = xdeps.Manager()
    s = m.ref(data, "s")
    idx = range(n) if order == "producer-first" else range(n - 1, -1, -1)
    for i in idx:
        s[f"v{i + 1}"] = s[f"v{i}"] + 1
        if i < branches:
            s[f"leaf{i}"] = s[f"v{i + 1}"] * 2          # finished long before the deep part of the chain
            s[f"leaf{i}b"] = s[f"leaf{i}"] + s["v0"]      # a second start task that is shallow
    s["side"] = s["v0"] * 3
    tr2.reset()
    try:
        s["v0"] = 10
    except RecursionError:
        return case, "RecursionError during the update", 0
    except Exception as e:  # noqa
        return case, f"{type(e).__name__}: {e}", 0
    writes = [p[-1][1] for p, _ in tr2.events]
    counts = {}
    for wkey in writes:
        counts[wkey] = counts.get(wkey, 0) + 1
    expected = {"v0"} | {f"v{i + 1}" for i in range(n)} | {f"leaf{i}" for i in range(branches)} | {f"leaf{i}b" for i in range(branches)} | {"side"}
    twice = sorted(k for k, c in counts.items() if c > 1)
    if twice:
        return case, f"location(s) written more than once in one update (task ran twice): {twice[:5]}", len(writes)
    if set(counts) != expected:
        miss = sorted(expected - set(counts))[:5]
        extra = sorted(set(counts) - expected)[:5]
        return case, f"tasks that ran != downstream set: missing {miss} unexpected {extra}", len(writes)
    pos = {k: i for i, k in enumerate(writes)}
    for i in range(n):
        if pos[f"v{i + 1}"] < pos[f"v{i}"]:
            return case, f"v{i + 1} was computed before v{i}", len(writes)
    for i in range(branches):
        if pos[f"leaf{i}"] < pos[f"v{i + 1}"] or pos[f"leaf{i}b"] < pos[f"leaf{i}"]:
            return case, f"branch {i} ran before its producer", len(writes)
    if data[f"v{n}"] != 10 + n:
        return case, f"v{n} = {data[f'v{n}']}, expected {10 + n}", len(writes)
    return case, None, len(writes)


def run_deepgraphs(job):
    import multiprocessing as mp
    import sys
    import xdeps  # noqa
    t0 = time.time()
    cases = [(n, order, br) for n in job["args"]["sizes"] for order in ("producer-first", "consumer-first") for br in (0, 3)]
    cases.sort(key=lambda c: -c[0])
    pool = mp.get_context("fork").Pool(job.get("nproc", 1))
    issues = []
    ev = 0
    writes = 0
    for case, err, nw in pool.imap_unordered(_deep_case, cases, chunksize=1):
        ev += 1
        writes += nw
        if err:
            issues.append({"kind": "violation", "property": "C02", "finding": None, "config": common.config_info(job),
                           "what": f"deep chain of {case[0]} tasks ({case[1]}, {case[2]} side branches): {err}",
                           "program": [f"v[i+1] = v[i] + 1 for i < {case[0]} ({case[1]}); {case[2]} side branches on early links; v0 = 10"],
                           "case": {"deep": list(case)}})
    pool.close()
    pool.join()
    return {"kind": "deepgraphs", "evaluations": ev, "writes_observed": writes, "issues": issues, "wall_s": time.time() - t0,
            "sizes": list(job["args"]["sizes"])}


def finish(plan_, results):
    cov, issues = common.merge_bfs(results)
    for r in results:
        if r.get("kind") == "sorter":
            cov["sorter"] = {"toposort_calls": r["evaluations"], "with_more_than_one_node": r["nontrivial"],
                             "scopes_nodes_maxstartlen": r["scopes"], "distinct_results_seen": r["distinct_results"],
                             "wall_s": round(r["wall_s"], 2),
                             "rule": "all directed graphs (self-loops included) on n labelled nodes x every ordered start list up to the stated length"}
            issues.extend(r["issues"])
        if r.get("kind") == "deepgraphs":
            cov["deep_graphs"] = {"cases": r["evaluations"], "sizes": r["sizes"], "task_runs_observed": r["writes_observed"],
                                  "rule": "chain length x definition order x side branches; one assignment at the head; every task exactly "
                                          "once, producers first, nothing else written", "wall_s": round(r["wall_s"], 2)}
            issues.extend(r["issues"])
    st = cov["stats"]
    cov["schedules_executed"] = st.get("schedules", 0)
    cov["samples"] = [{"history": it["program"], "verdict": it["kind"], "what": it["what"],
                       "start_permutation": (it.get("detail") or {}).get("start_permutation")} for it in issues[:3]] or \
        [{"note": "no issue found"}]
    cov["oracle"] = ("per assignment and start-set permutation: tasks that wrote == model trigger set, each once, "
                     "producer before consumer on every precise edge, FunctionTask actions counted; cyclic: terminates, "
                     "at most once, within reachable set; sorter: reachable set, once each, edges respected across SCCs")
    return cov, issues


def replay(issue):
    case = issue["case"]
    if "sorter" in case:
        from xdeps.sorting import toposort
        b = case["sorter"]
        graph = {}
        for u, v in b["edges"]:
            graph.setdefault(u, []).append(v)
        for u in range(b["n"]):
            graph.setdefault(u, [])
        res = toposort(graph, list(b["start"]))
        err = _check_sort(b["n"], [tuple(e) for e in b["edges"]], list(b["start"]), res)
        return {"still_fails": bool(err), "what": err or "ok"}
    if case.get("timeout"):
        return {"still_fails": False, "what": "timeout cases are re-run by the check itself"}
    if "deep" in case:
        c, err, _ = _deep_case(tuple(case["deep"]))
        return {"still_fails": bool(err), "what": err or "ok"}
    world = case["world"]
    if world == "W-cyc":
        import ast
        ops = [ast.literal_eval(s) for s in issue["ops"]]
        s = CyclicSystem(CYC_WORLD, {"extra": ops, "values": ()}, issue.get("config"))
        s.universe = ops
        r = s.expand(tuple(range(len(ops) - 1)))
        bad = [i for i in r["issues"] if i["ops"][-1] == issue["ops"][-1]]
        return {"still_fails": bool(bad), "what": bad[0]["what"] if bad else "ok"}
    import ast
    ops = [ast.literal_eval(s) for s in issue["ops"]]
    s = System(WORLDS[world], {"extra": ops, "values": ()}, issue.get("config"))
    s.universe = ops
    hist = tuple(range(len(ops) - 1))
    full = s.expand(hist)
    bad = [i for i in full["issues"] if i["ops"][-1] == issue["ops"][-1] and i["kind"] == issue.get("kind", "violation")]
    return {"still_fails": bool([b for b in bad if b["kind"] == "violation"]), "what": bad[0]["what"] if bad else "ok"}
