"""C14 — every Table the API produces is rectangular and leaves its source
untouched.  Model checking (engine H): histories of derivation operations
(row selection, column selection incl. expressions, +, *, concatenate, _copy,
_t, reversal, head/tail) and column assignments, each derivation continuing
on the derived table, to the depth bound, from base tables with 0..3 rows and
float / int / string / object columns plus a scalar entry.  Invariant on every
produced table; snapshot of the source around every derivation; contents
compared with a plain-list model; column expressions against numpy."""
import ast

from .. import simple
from . import common

LEVEL = "model_checking"
OBJS = [None, (1, 2), "str", 7]
SCALAR = 3.5


class Model:
    def __init__(self, n):
        names = ["a", "b", "a"][:n]
        self.cols = {"name": list(names), "x": [1.5 * (i + 1) for i in range(n)], "y": [i + 1 for i in range(n)],
                     "o": [OBJS[i] for i in range(n)], "m": [[1.0 * i, i + 0.5] for i in range(n)],
                     "sign": [(-1.0) ** i * (i + 1) for i in range(n)],       # a column named like a numpy ufunc
                     "prev": [i - 1 for i in range(n)]}                       # a column of row POSITIONS (the first one negative)
        self.order = ["name", "x", "y", "o", "m", "sign", "prev"]
        self.index = "name"
        # non-column entries: a number, and a vector whose length happens to EQUAL the row count
        self.scalars = {"q": SCALAR, "vec": [0.5 + j for j in range(n)]}

    def n(self):
        return len(self.cols[self.order[0]])

    def take(self, pos):
        for c in self.order:
            self.cols[c] = [self.cols[c][p] for p in pos]


def cell(v):
    """canonical form of a cell for comparisons"""
    try:
        import numpy as np
        if isinstance(v, np.generic):
            v = v.item()
        elif isinstance(v, np.ndarray):
            v = v.tolist()
    except ImportError:
        pass
    if isinstance(v, float) and v != v:
        return "nan"
    return repr(v)


ROWSELS = [("slice", 1, None, None), ("slice", None, None, 2), ("slice", None, None, -1), ("slice", 0, 0, None),
           ("list", (0,)), ("list", (1, 0)), ("list", ()), ("maskall",), ("maskalt",), ("regex", "a.*"), ("regex", "zz"),
           ("int", 0), ("head", 1), ("tail", 2), ("neg",),
           # integer ARRAYS as selectors: a fresh one with a negative entry, and a column of the table itself (shares its memory)
           ("intarr", (-1, 0)), ("bycol", "prev"),
           # several selectors at once: rows[s1, s2] (documented as rows[s1].rows[s2])
           ("multi", "rev_tail"), ("multi", "mask_first")]
COLSELS = ["x", "x y", ["y"], "x+y", "x+2*y", "o", ["x", "x*x"], "m y", "sign*2", ["sign", "x*sign"],
           # a column whose name CONTAINS the name of the index column ('name'), selected by a string
           "yname", "x yname"]


def universe():
    ops = [("rows",) + r for r in ROWSELS]
    ops += [("cols", c) for c in COLSELS]
    ops += [("add",), ("mul", 1), ("mul", 2), ("concat",), ("copy",), ("t",),
            ("setcol", "x", "double"), ("setcol", "y", "const"), ("newcol", "z"), ("newcol", "yname"), ("setscalar",), ("setcell", "x"), ("peek",),
            ("concat_sub",), ("evalexpr",), ("concat_any",)]
    return ops


def expr_cols(spec):
    return spec.split() if isinstance(spec, str) else list(spec)


def needs(expr):
    return [c for c in ("x", "y", "o", "z", "m", "sign") if c in expr.replace("zz", "")]


class System(simple.SimpleSystem):
    prop = "C14"

    def __init__(self, nrows, config_info=None):
        super().__init__(config_info)
        self.nrows = nrows
        self.name = f"table:{nrows}"
        self.universe = universe()

    def build(self):
        import numpy as np
        from xdeps import Table
        m = Model(self.nrows)
        o = np.empty(m.n(), dtype=object)
        for i, v in enumerate(m.cols["o"]):
            o[i] = v
        data = {"name": np.array(m.cols["name"], dtype=object), "x": np.array(m.cols["x"], dtype=float),
                "y": np.array(m.cols["y"], dtype=int), "o": o, "m": np.array(m.cols["m"], dtype=float).reshape(m.n(), 2),
                "sign": np.array(m.cols["sign"], dtype=float), "prev": np.array(m.cols["prev"], dtype=int), "q": SCALAR,
                "vec": np.array(m.scalars["vec"], dtype=float)}
        t = Table(data, col_names=["name", "x", "y", "o", "m", "sign", "prev"])
        return {"t": t, "m": m, "src": None, "anc": []}

    def enabled(self, live, hist):
        m = live["m"]
        n = m.n()
        out = []
        for i, op in enumerate(self.universe):
            k = op[0]
            if k == "rows":
                if op[1] == "list" and any(p >= n for p in op[2]):
                    continue
                if op[1] == "int" and op[2] >= n:
                    continue
                if op[1] == "regex" and m.index is None:
                    continue
                if op[1] == "multi" and n == 0:
                    continue
                if op[1] == "intarr" and any(not -n <= p < n for p in op[2]):
                    continue
                if op[1] == "bycol" and (op[2] not in m.cols or n == 0 or
                                         any(not (isinstance(p, int) and -n <= p < n) for p in m.cols[op[2]])):
                    continue
            elif k == "cols":
                if any(c not in m.cols for e in expr_cols(op[1]) for c in needs(e)):
                    continue
                if any(e.isidentifier() and e not in m.cols for e in expr_cols(op[1])):
                    continue
                if any(("+" in e or "*" in e) and "o" in needs(e) for e in expr_cols(op[1])):
                    continue
            elif k == "concat":
                if m.index != "name":
                    continue
            elif k == "concat_sub":
                if m.index != "name" or "x" not in m.cols or n * 2 > 12:
                    continue
            elif k == "concat_any":
                if m.index == "name":
                    continue
            elif k == "evalexpr":
                if "x" not in m.cols or "y" not in m.cols or not all(isinstance(v, (int, float)) for v in m.cols["x"] + m.cols["y"]):
                    continue
            elif k in ("setcol", "setcell"):
                if op[1] not in m.cols or (k == "setcell" and n == 0):
                    continue
            elif k == "mul" and n * op[1] > 12:
                continue
            elif k == "add" and n * 2 > 12:
                continue
            out.append(i)
        return out

    # ------------------------------------------------------------------
    def apply(self, live, op):
        import numpy as np
        from xdeps import Table
        t, m = live["t"], live["m"]
        k = op[0]
        n = m.n()
        live["src"] = None
        derived = None
        if k == "rows":
            kind = op[1]
            allpos = list(range(n))
            if kind == "slice":
                sel = slice(op[2], op[3], op[4])
                pos = allpos[sel]
            elif kind == "list":
                sel = list(op[2])
                pos = list(op[2])
            elif kind == "maskall":
                sel = np.ones(n, dtype=bool)
                pos = allpos
            elif kind == "maskalt":
                sel = np.array([i % 2 == 0 for i in range(n)], dtype=bool)
                pos = [i for i in allpos if i % 2 == 0]
            elif kind == "regex":
                import re
                sel = op[2]
                pos = [i for i in allpos if re.fullmatch(op[2], str(m.cols[m.index][i]), re.I)]
            elif kind == "int":
                sel = op[2]
                pos = [op[2]]
            elif kind == "intarr":
                sel = np.array(op[2], dtype=int)
                pos = [p % n for p in op[2]]
            elif kind == "bycol":
                sel = t[op[2]]                       # the column array itself
                pos = [p % n for p in m.cols[op[2]]]
            elif kind == "multi":
                if op[2] == "rev_tail":
                    sel = (slice(None, None, -1), slice(1, None))
                    pos = allpos[::-1][1:]
                else:
                    sel = (np.ones(n, dtype=bool), [0])
                    pos = allpos[:1]
            elif kind == "head":
                pos = allpos[:op[2]]
                sel = None
            elif kind == "tail":
                pos = allpos[-op[2]:]
                sel = None
            else:
                pos = allpos[::-1]
                sel = None
            live["src"] = (t, snapshot(t))
            if kind == "head":
                derived = t.rows.head(op[2])
            elif kind == "tail":
                derived = t.rows.tail(op[2])
            elif kind == "neg":
                derived = -t
            else:
                sel_before = sel.tolist() if isinstance(sel, np.ndarray) else None
                derived = t.rows[sel]
                if sel_before is not None and sel.tolist() != sel_before:
                    live["sel_changed"] = (sel_before, sel.tolist())
            m.take(pos)
        elif k == "cols":
            names = expr_cols(op[1])
            live["src"] = (t, snapshot(t))
            derived = t.cols[op[1]]
            env = {c: np.array(v) if c != "o" else v for c, v in m.cols.items()}
            newcols = {}
            for e in names:
                if e in m.cols:
                    newcols[e] = list(m.cols[e])
                else:
                    newcols[e] = [x for x in eval(e, {}, env).tolist()]
            order = list(names)
            if m.index is not None and m.index not in order:
                order.insert(0, m.index)
                newcols[m.index] = list(m.cols[m.index])
            m.cols, m.order = newcols, order
        elif k == "add":
            live["src"] = (t, snapshot(t))
            derived = t + t
            for c in m.order:
                m.cols[c] = m.cols[c] + m.cols[c]
            live["drop_scalars_ok"] = False
        elif k == "mul":
            live["src"] = (t, snapshot(t))
            derived = t * op[1]
            for c in m.order:
                m.cols[c] = m.cols[c] * op[1]
        elif k == "concat":
            live["src"] = (t, snapshot(t))
            derived = Table.concatenate([t, t])
            for c in m.order:
                m.cols[c] = m.cols[c] + m.cols[c]
            m.order = None          # column order of concatenate() is unspecified (set of common names)
            m.scalars = None        # the property does not claim scalars for concatenation
            m.index = "name"
        elif k == "concat_sub":
            # the operands do not have the same columns: only the common ones are kept; the FIRST operand has more
            live["src"] = (t, snapshot(t))
            derived = Table.concatenate([t, t.cols["x"]])
            keep = [c for c in m.order if c in ("name", "x")]
            m.cols = {c: m.cols[c] + m.cols[c] for c in keep}
            m.order = None
            m.scalars = None
            m.index = "name"
        elif k == "concat_any":
            # the class method on tables whose index column is not called 'name': it may refuse (ValueError, no table produced);
            # whatever it does produce is a table like any other
            try:
                live["concat_any"] = Table.concatenate([t, t])
            except ValueError:
                live["concat_any"] = None
        elif k == "evalexpr":
            live["expr_value"] = (list(t["x+2*y"]), [a + 2 * b for a, b in zip(m.cols["x"], m.cols["y"])])
        elif k == "copy":
            live["src"] = (t, snapshot(t))
            derived = t._copy()
        elif k == "t":
            live["src"] = (t, snapshot(t))
            derived = t._t
            newcols = {"columns": list(m.order)}
            order = ["columns"]
            for r in range(n):
                newcols[f"row{r}"] = [str(np.array(m.cols[c][r], dtype=float)) if isinstance(m.cols[c][r], list) else str(m.cols[c][r])
                                      for c in m.order]
                order.append(f"row{r}")
            m.cols, m.order, m.index, m.scalars = newcols, order, "columns", {}
        elif k == "setcol":
            if op[2] == "double":
                t[op[1]] = t[op[1]] * 2
                m.cols[op[1]] = [v * 2 for v in m.cols[op[1]]]
            else:
                t[op[1]] = 1
                m.cols[op[1]] = [1 for _ in m.cols[op[1]]]
        elif k == "setcell":
            t[op[1], 0] = 9.0
            m.cols[op[1]][0] = 9.0
        elif k == "newcol":
            t[op[1]] = np.arange(n) * 1.0
            if op[1] not in m.cols:
                m.order.append(op[1])
            m.cols[op[1]] = [1.0 * i for i in range(n)]
        elif k == "setscalar":
            t["q2"] = 8.25
            if m.scalars is not None:
                m.scalars["q2"] = 8.25
        elif k == "peek":
            # derive from the current table WITHOUT continuing on the result (the current table stays the subject)
            live["peeked"] = [t.rows[0:1], t.cols[m.order[-1]] if m.order else None, t.rows[[]]]
        else:
            raise ValueError(op)
        if derived is not None:
            live["anc"].append((t, list(t._col_names), len(t)))
            live["t"] = derived
        if m.order is None:
            m.order = list(live["t"]._col_names)
            if sorted(m.order) != sorted(m.cols):
                m.order = sorted(m.cols)   # mismatch is reported by the transition oracle
        return None

    def canon(self, live):
        """every attribute of the current table (data, column list, index and anything a change to the library may add, e.g. a
        cache), so that histories are never merged while such state differs"""
        def one(t):
            data = []
            for c in sorted(t._data, key=str):
                v = t._data[c]
                if hasattr(v, "__len__") and not isinstance(v, str):
                    data.append((str(c), getattr(v, "dtype", None) is not None and v.dtype.kind, [cell(x) for x in v]))
                else:
                    data.append((str(c), cell(v)))
            extra = []
            for k in sorted(t.__dict__):
                if k in ("rows", "cols", "_data", "_col_names"):
                    continue
                v = t.__dict__[k]
                if isinstance(v, dict):
                    v = sorted((repr(x), repr(y)) for x, y in v.items())
                elif isinstance(v, (set, frozenset)):
                    v = sorted(map(repr, v))
                extra.append((k, repr(v)))
            return (list(t._col_names), data, extra)
        # the tables produced earlier in the history are part of the state too: the oracle re-checks them, they may share arrays
        # with the current table, and a change to the library may keep state (a cache) in them
        # ... and so is the ALIASING between them: which columns of which earlier table share memory with the current table's
        import numpy as np
        chain = [a[0] for a in live["anc"]] + [live["t"]]
        alias = []
        for i, ta in enumerate(chain):
            for j in range(i + 1, len(chain)):
                tb = chain[j]
                for c in sorted(set(map(str, ta._data)) & set(map(str, tb._data))):
                    va, vb = ta._data.get(c), tb._data.get(c)
                    if isinstance(va, np.ndarray) and isinstance(vb, np.ndarray) and va.size and vb.size and np.shares_memory(va, vb):
                        alias.append((i, j, c))
        return simple.digest((one(live["t"]), [one(a[0]) for a in live["anc"]], alias))

    def op_str(self, op):
        k = op[0]
        if k == "rows":
            kind = op[1]
            if kind == "slice":
                return f"t = t.rows[{op[2]}:{op[3]}:{op[4]}]".replace("None", "")
            if kind == "list":
                return f"t = t.rows[{list(op[2])!r}]"
            if kind == "multi":
                return "t = t.rows[::-1, 1:]" if op[2] == "rev_tail" else "t = t.rows[np.ones(len(t), bool), [0]]"
            if kind == "maskall":
                return "t = t.rows[np.ones(len(t), bool)]"
            if kind == "maskalt":
                return "t = t.rows[np.arange(len(t)) % 2 == 0]"
            if kind in ("regex", "int"):
                return f"t = t.rows[{op[2]!r}]"
            if kind in ("head", "tail"):
                return f"t = t.rows.{kind}({op[2]})"
            return "t = -t"
        if k == "cols":
            return f"t = t.cols[{op[1]!r}]"
        if k == "add":
            return "t = t + t"
        if k == "mul":
            return f"t = t * {op[1]}"
        if k == "concat":
            return "t = Table.concatenate([t, t])"
        if k == "concat_any":
            return "Table.concatenate([t, t])   # index column not called 'name': refused, or a well-formed table"
        if k == "copy":
            return "t = t._copy()"
        if k == "t":
            return "t = t._t"
        if k == "setcol":
            return f"t[{op[1]!r}] = t[{op[1]!r}] * 2" if op[2] == "double" else f"t[{op[1]!r}] = 1"
        if k == "setcell":
            return f"t[{op[1]!r}, 0] = 9.0"
        if k == "newcol":
            return f"t[{op[1]!r}] = np.arange(len(t)) * 1.0"
        if k == "setscalar":
            return "t['q2'] = 8.25"
        if k == "concat_sub":
            return "t = Table.concatenate([t, t.cols['x']])"
        if k == "evalexpr":
            return "t['x+2*y']   # column expression evaluated (a query)"
        if k == "peek":
            return "t.rows[0:1]; t.cols[<last column>]; t.rows[[]]   # derived tables looked at and dropped"
        return repr(op)

    # ------------------------------------------------------------------
    def transition(self, live, op, obs, exc, hist, mk):
        issues = []
        if exc is not None:
            return [self.issue(hist, op, f"{type(exc).__name__}: {exc}")]
        t, m = live["t"], live["m"]
        # source untouched by the derivation
        if live.get("src") is not None:
            src, snap = live["src"]
            now = snapshot(src)
            if now != snap:
                issues.append(self.issue(hist, op, "deriving a table changed its source", {"before": snap, "after": now}))
        live["src"] = None
        sc = live.pop("sel_changed", None)
        if sc is not None:
            issues.append(self.issue(hist, op, f"selecting rows changed the selector array handed in: {sc[0]!r} -> {sc[1]!r}"))
        # every table produced earlier in the history is still a well-formed table with the columns and length it had
        # (cell VALUES may change through shared arrays; that is not claimed by the property)
        ca = live.pop("concat_any", None)
        if ca is not None:
            pr = rect_problems(ca)
            if pr:
                issues.append(self.issue(hist, op, "Table.concatenate([t, t]) produced a table that is not well formed: " + pr[0],
                                         {"index": ca._index, "col_names": list(ca._col_names)}))
                return issues
        ev = live.pop("expr_value", None)
        if ev is not None and [float(a) for a in ev[0]] != [float(b) for b in ev[1]]:
            issues.append(self.issue(hist, op, f"t['x+2*y'] = {ev[0]!r}, element-wise value is {ev[1]!r}"))
            return issues
        for gen, (anc, names, length) in enumerate(live["anc"]):
            pa = rect_problems(anc)
            if not pa and "x" in anc._col_names and "y" in anc._col_names and getattr(anc["x"], "dtype", None) is not None \
                    and anc["x"].dtype.kind in "fi" and anc["y"].dtype.kind in "fi":
                # a column expression on an earlier table reflects that table's CURRENT columns (they may have been changed
                # through a derived table that shares the arrays)
                import numpy as _np
                if not _np.array_equal(_np.asarray(anc["x+2*y"], dtype=float), _np.asarray(anc["x"], dtype=float) + 2 * _np.asarray(anc["y"], dtype=float)):
                    pa = ["the column expression 'x+2*y' on it no longer equals x + 2*y of its current columns"]
            if not pa and list(anc._col_names) != names:
                pa = [f"its column list changed from {names!r} to {list(anc._col_names)!r}"]
            if not pa and len(anc) != length:
                pa = [f"its length changed from {length} to {len(anc)}"]
            if pa:
                issues.append(self.issue(hist, op, f"a table produced earlier (derivation #{gen} of the history) was damaged by a later operation "
                                                   f"on a table derived from it: {pa[0]}"))
                return issues
        # rectangular
        problems = rect_problems(t)
        if problems:
            issues.append(self.issue(hist, op, "derived table is not rectangular: " + problems[0],
                                     {"col_names": list(t._col_names), "lengths": {str(c): _len(t._data.get(c)) for c in t._data}}))
            return issues
        # contents as the model says
        if list(t._col_names) != list(m.order):
            issues.append(self.issue(hist, op, f"columns are {list(t._col_names)!r}, expected {m.order!r}"))
            return issues
        for c in m.order:
            got = [cell(x) for x in t._data[c]]
            want = [cell(x) for x in m.cols[c]]
            if got != want:
                issues.append(self.issue(hist, op, f"column {c!r} is {got!r}, expected {want!r}"))
                return issues
        if m.index != t._index:
            issues.append(self.issue(hist, op, f"index column is {t._index!r}, expected {m.index!r}"))
        for d in live.pop("peeked", None) or ():
            if d is None:
                continue
            pr = rect_problems(d)
            if pr:
                issues.append(self.issue(hist, op, "a table derived from the current one is not rectangular: " + pr[0]))
                return issues
            if m.scalars is not None:
                for kk, vv in m.scalars.items():
                    if kk not in d or kk in d._col_names or cell(d[kk]) != cell(vv):
                        issues.append(self.issue(hist, op, f"scalar entry {kk!r} was not carried over to a table derived from the current one"))
                        return issues
        if m.scalars is not None and op[0] in ("rows", "cols", "copy", "mul", "add", "setscalar"):
            for kk, vv in m.scalars.items():
                if kk not in t or kk in t._col_names or cell(t[kk]) != cell(vv):
                    issues.append(self.issue(hist, op, f"scalar entry {kk!r} was not carried over to the derived table"))
                    break
        return issues

    def state(self, mk_child, hist, op):
        import numpy as np
        live = mk_child()
        t, m = live["t"], live["m"]
        issues = []
        if "x" in m.cols and "y" in m.cols and all(isinstance(v, (int, float)) for v in m.cols["x"] + m.cols["y"]):
            x, y = np.array(m.cols["x"], dtype=float), np.array(m.cols["y"])
            exprs = [("x+2*y", x + 2 * y), ("x*y-1", x * y - 1), ("sqrt(x*x)", np.sqrt(x * x))]
            if "sign" in m.cols and all(isinstance(v, (int, float)) for v in m.cols["sign"]):
                sg = np.array(m.cols["sign"], dtype=float)
                exprs += [("sign*x", sg * x), ("abs(sign)+y", np.abs(sg) + y)]
            for e, want in exprs:
                got = t[e]
                if len(got) != len(want) or not np.array_equal(np.asarray(got, dtype=float), want):
                    issues.append(self.issue(hist, op, f"t[{e!r}] = {list(got)!r}, element-wise value is {list(want)!r}"))
                snap = snapshot(t)
                sub = t.cols[e]
                if snapshot(t) != snap:
                    issues.append(self.issue(hist, op, f"t.cols[{e!r}] changed its source"))
                got2 = sub[e]
                if not np.array_equal(np.asarray(got2, dtype=float), want) or rect_problems(sub):
                    issues.append(self.issue(hist, op, f"t.cols[{e!r}][{e!r}] = {list(got2)!r}, element-wise value is {list(want)!r}"))
        # len() and the row count of every column agree with the model
        if len(t) != m.n():
            issues.append(self.issue(hist, op, f"len(t) = {len(t)}, expected {m.n()}"))
        return issues


def _len(v):
    try:
        return len(v)
    except TypeError:
        return None


def rect_problems(t):
    out = []
    names = list(t._col_names)
    if len(set(map(str, names))) != len(names):
        out.append(f"duplicate column names {names!r}")
    for c in names:
        if c not in t._data:
            out.append(f"listed column {c!r} is not present")
            return out
    try:
        n = len(t)
    except Exception as e:  # noqa
        return [f"len(t) raised {type(e).__name__}"]
    for c in names:
        if _len(t._data[c]) != n:
            out.append(f"column {c!r} has length {_len(t._data[c])}, len(table) = {n}")
    if t._index is not None and t._index not in names:
        out.append(f"index column {t._index!r} is not among the columns {names!r}")
    return out


def snapshot(t):
    return (len(t), list(t._col_names), t._index,
            [(str(c), [cell(x) for x in t._data[c]] if hasattr(t._data[c], "__len__") and not isinstance(t._data[c], str) else cell(t._data[c]))
             for c in sorted(t._data, key=str)])


def constructor_cases():
    """every pair of column dtypes x lengths (n, n+1, n-1) handed to the checked constructor: a ragged input must be rejected with
    ValueError (or whatever is built must be rectangular); a well-formed input must be accepted"""
    import numpy as np
    mk = {"f": lambda k: np.arange(k) * 1.5, "i": lambda k: np.arange(k), "U": lambda k: np.array([f"s{j}" for j in range(k)], dtype="U4") if k else np.array([], dtype="U4"),
          "S": lambda k: np.array([b"b"] * k, dtype="S2"), "O": lambda k: np.array([None] * k, dtype=object)}
    for n in (0, 1, 2, 3):
        for d1 in mk:
            for d2 in mk:
                for d3 in mk:
                    for dl2, dl3 in ((0, 0), (1, 0), (0, 1), (1, 1), (-1, 0), (0, -1)):
                        l2, l3 = n + dl2, n + dl3
                        if l2 < 0 or l3 < 0:
                            continue
                        yield n, (d1, d2, d3), (n, l2, l3), {"name": mk["U"](n) if d1 == "U" else mk[d1](n), "a": mk[d2](l2), "b": mk[d3](l3)}


def colnames_cases():
    """the constructor with explicit col_names / index: every subset of the three data keys as the column list x every choice of the
    index (a listed column, an unlisted data key, a name that is no key, the default).  Whatever is accepted must be a well-formed table
    (index among the columns, listed columns present and of equal length, unlisted keys kept as non-column entries); the rest ValueError."""
    import itertools
    import numpy as np
    keys = ("name", "a", "b")
    for n in (0, 2):
        data = {"name": np.array([f"s{j}" for j in range(n)], dtype=object), "a": np.arange(n) * 1.5, "b": np.arange(n)}
        for r in range(0, 4):
            for cols in itertools.permutations(keys, r):
                for index in (None, "name", "a", "zz"):
                    yield n, data, list(cols), index


def run_colnames(issues):
    from xdeps import Table
    ev = 0
    for n, data, cols, index in colnames_cases():
        ev += 1
        kw = {"col_names": list(cols)}
        if index is not None:
            kw["index"] = index
        eff_index = index if index is not None else "name"
        well_formed = eff_index in cols
        what = None
        try:
            t = Table(dict(data), **kw)
            pr = rect_problems(t)
            if pr:
                what = f"accepted and built a table that is not well formed: {pr[0]}"
            elif not well_formed:
                what = f"accepted although the index column {eff_index!r} is not among the columns {cols!r}"
            elif list(t._col_names) != list(cols):
                what = f"column list is {list(t._col_names)!r}, given {cols!r}"
            else:
                for k in data:
                    if k not in cols and (k not in t._data or cell(t._data[k]) != cell(data[k])):
                        what = f"the unlisted entry {k!r} was not kept as it was given"
        except ValueError:
            if well_formed:
                what = "rejected a well-formed request"
        except Exception as e:  # noqa
            what = f"raised {type(e).__name__}: {e}"
        if what and len(issues) < 20:
            issues.append({"kind": "violation", "property": "C14", "finding": None, "config": {},
                           "what": f"Table(data, col_names={cols!r}, index={index!r}) with {n} rows: {what}",
                           "program": [f"Table({{'name': ..., 'a': ..., 'b': ...}}, col_names={cols!r}" + (f", index={index!r})" if index else ")")],
                           "case": {"colnames": [n, cols, index]}})
    return ev


def run_constructor(job):
    import time
    from xdeps import Table
    t0 = time.time()
    ev = 0
    issues = []
    accepted = rejected = 0
    ev += run_colnames(issues)
    for n, dts, lens, data in constructor_cases():
        ev += 1
        ragged = len(set(lens)) > 1
        what = None
        try:
            t = Table(dict(data))
            accepted += 1
            pr = rect_problems(t)
            if pr:
                what = f"the constructor accepted columns of lengths {lens} (dtypes {dts}) and built a table that is not rectangular: {pr[0]}"
            elif ragged:
                what = f"the constructor accepted columns of different lengths {lens} (dtypes {dts})"
        except ValueError:
            rejected += 1
            if not ragged:
                what = f"the constructor rejected well-formed columns of lengths {lens} (dtypes {dts})"
        except Exception as e:  # noqa
            what = f"the constructor raised {type(e).__name__} for lengths {lens} (dtypes {dts}): {e}"
        if what and len(issues) < 20:
            issues.append({"kind": "violation", "property": "C14", "finding": None, "what": what, "config": {},
                           "program": [f"Table({{'name': <{dts[0]} x {lens[0]}>, 'a': <{dts[1]} x {lens[1]}>, 'b': <{dts[2]} x {lens[2]}>}})"],
                           "case": {"constructor": [list(dts), list(lens)]}})
    return {"kind": "constructor", "evaluations": ev, "accepted": accepted, "rejected": rejected, "issues": issues, "wall_s": time.time() - t0}


def plan(tier, seed):
    jobs = [{"name": "constructor", "mode": "pure", "hashseed": seed % 2 ** 32, "nproc": 1, "timeout": 1200, "args": {"what": "constructor"}}]
    # (the state includes every table produced so far and the aliasing between them, so the search is deep rather than wide)
    depths = {0: 3, 1: 3, 2: 4, 3: 3} if tier == "quick" else {0: 4, 1: 4, 2: 5, 3: 4}
    for n in (0, 1, 2, 3):
        depth = depths[n]
        jobs.append({"name": f"bfs:rows{n}:d{depth}", "mode": "pure", "hashseed": seed % 2 ** 32,
                     "nproc": (10 if n == 2 else 2) if tier == "quick" else 16, "timeout": 3300,
                     "args": {"nrows": n, "depth": depth, "time_cap": 2400}})
    return {"level": LEVEL, "jobs": jobs,
            "assumptions": ["only the derivation itself must leave the source untouched; write isolation of later assignments through "
                            "shared arrays is not claimed by the property",
                            "repetition factor k >= 1; concatenation of tables with the same columns",
                            "column order of Table.concatenate() is unspecified (it iterates a set) and is not compared"]}


def run_job(job):
    a = job["args"]
    if a.get("what") == "constructor":
        return run_constructor(job)
    return common.run_bfs(System(a["nrows"], common.config_info(job)), job)


def finish(plan_, results):
    cov, issues = common.merge_bfs(results)
    for r in results:
        if r.get("kind") == "constructor":
            cov["constructor_inputs"] = {"cases": r["evaluations"], "accepted": r["accepted"], "rejected_with_ValueError": r["rejected"]}
            issues.extend(r["issues"])
    cov["samples"] = [{"history": it["program"], "what": it["what"]} for it in issues[:3]] or [
        {"history": ["t = t.rows[1::]", "t = t.cols['x+2*y']", "t = t + t", "t = t._t"],
         "checked": "rectangular; source snapshot unchanged; contents equal the list model"}]
    return cov, issues


def replay(issue):
    if "constructor" in issue.get("case", {}):
        r = run_constructor({})
        bad = [i for i in r["issues"] if i["case"] == issue["case"]]
        return {"still_fails": bool(bad), "what": bad[0]["what"] if bad else "ok"}
    ops = [ast.literal_eval(s) for s in issue["ops"]]
    n = int(issue["case"]["system"].split(":")[1])
    s = System(n, issue.get("config"))
    s.universe = ops
    hist = tuple(range(len(ops) - 1))
    live = s.replay(hist)
    exc = None
    try:
        s.apply(live, ops[-1])
    except Exception as e:  # noqa
        exc = e
    found = s.transition(live, ops[-1], None, exc, hist, None)
    if not found:
        h2 = tuple(range(len(ops)))
        found = s.state(lambda: s.replay(h2), hist, ops[-1])
    return {"still_fails": bool(found), "what": found[0]["what"] if found else "ok"}
