"""C11 — printed expressions rebuild themselves: dump / load / copy_expr_from
are faithful.

(E) term level, exhaustive enumeration: every expression of a stated finite
language (all operators x operand forms over refs and finite numeric
constants incl. negatives and exponents, depth <= 2 and selected depth 3;
builtins with parameters; math.floor/ceil/trunc; calls with positional and
keyword numeric arguments; string / int keys from an adversarial pool incl.
keys that contain a container label; computed keys) is built on real refs,
printed, evaluated back in a namespace binding the container labels, and the
result must be == the original, hash-equal, have the same value (or raise the
same exception type) and the same dependency set; Manager.load itself must be
able to rebuild it and give the same value.

(H) manager level, model checking: on every state reached by assignment
histories (alphabets with every node kind, incl. a world whose keys contain
the container labels): dump() -> load() into a fresh manager over equivalent
containers gives the same definitions and the same reaction to every one-step
follow-up assignment (each side judged against the reference model);
copy_expr_from with the rebinding maps label -> {same label, other label,
nested ref}; load/copy with overwrite=False / True are operations of the
alphabet and judged by the reference model."""
import math

from .. import enumerate as E
from .. import mgr
from .. import refmodel as RM
from .. import terms as T
from ..mgr import ManagerSystem, WORLDS, P
from ..world import World, wrap
from . import common
from .c01 import replay_history
from .c03 import _loads, check_indices

LEVEL = "model_checking"

# a world whose keys contain the container labels ('s', 'f') and look like sub-paths
W_LABEL = {
    "name": "W-label",
    "data": {"s": 1, "s_a": 2, "f": {"s": 10, "fs": 20}, "s['a']": 4},
    "leaves": [P("s"), P("s_a"), P("f", "s"), P("f", "fs"), P("s['a']")],
    "containers": {},
    "funs": {}, "knobs": {},
}
WORLDS.setdefault("W-label", W_LABEL)

CFG = {
    "mix": {"values": (3,), "index_values": (1,),
            "templates": ("mul2", "add", "neg", "abs", "round1", "floor", "pick", "total", "dyn", "lt", "rpow", "constcall"),
            "iops": (("sub", ("lit", 1)),), "unreg": True},
    "nest": {"values": (3,), "templates": ("mul2", "add", "sub", "round1", "constcall"), "iops": (("add", ("lit", 1)),), "unreg": True},
    "label": {"values": (3,), "templates": ("mul2", "add", "floor", "rpow"), "iops": (("mul", ("src",)),), "unreg": True},
    # few locations, deeper: operations that are queries on the explored manager (export = another manager copies from it)
    # interleaved with definitions being added, replaced by values and removed
    "tiny": {"values": (3,), "templates": ("mul2", "constcall"), "unreg": True, "leaves_n": 3},
}


QUICK_SOURCES = {"W-mix": [P("a"), P("l", 1), P("o", ("a", "q"))], "W-nest": [P("a"), P("n", "x"), P("n", "y")]}


def alphabet(world, name, tier="thorough"):
    cfg = dict(CFG[name])
    n = cfg.pop("leaves_n", None)
    if n:
        cfg["leaves"] = world["leaves"][:n]
        cfg["sources"] = world["leaves"][:n]
        cfg["extra"] = [("export",)]
        return cfg
    if tier == "quick" and world["name"] in QUICK_SOURCES:
        cfg["sources"] = QUICK_SOURCES[world["name"]]     # operands of the templates come from 3 locations (targets: all)
    loads = _loads(world)
    cfg["extra"] = loads[:8] + [("copyfrom", op[1], op[2]) for op in loads[:4]] + [("export",)]
    return cfg


def _uses_call(t):
    if not isinstance(t, tuple):
        return False
    if t and t[0] == "call":
        return True
    return any(_uses_call(x) for x in t if isinstance(x, tuple))


def graph_canon(w):
    """the set of tasks (target, expression) and the four indices as multisets (keys with non-empty entries and their counts).
    Insertion ORDER is deliberately not compared: the order in which load()/copy_expr_from register definitions is not part of the
    property.  Container contents are left out because load()/copy_expr_from register definitions without running them."""
    m = w.m
    idx = []
    for d in (m.rdeps, m.rtasks, m.deptasks, m.tartasks):
        idx.append(sorted((str(k), sorted((str(i), c) for i, c in v.items())) for k, v in d.items() if len(v)))
    return (sorted((str(k), type(t).__name__, str(getattr(t, "expr", None))) for k, t in m.tasks.items()), idx, m._tree_frozen)


class Sub:
    """World-like view on a manager in which the label 's' is rebound to another ref (top-level or nested)."""

    def __init__(self, spec, contents, top_label, nested):
        import xdeps
        from ..world import Trace
        self.spec = spec
        self.trace = Trace()
        self.m = xdeps.Manager()
        self.funcs = T.Funcs()
        inner = wrap(contents, ("s",), self.trace)
        if nested:
            self.top = {"sub": inner, "other": 1}
            topref = self.m.ref(self.top, top_label)
            self.bound = topref["sub"]
        else:
            self.top = inner
            self.bound = self.m.ref(inner, top_label)
        self.data = inner
        self.roots = {"s": self.bound, "f": self.m.ref(self.funcs, "f")}
        self.fun_calls, self.knob_objs = {}, {}

    ref = World.ref
    contents = World.contents
    assign = World.assign
    apply = World.apply
    plain_roots = World.plain_roots


class System(ManagerSystem):
    prop = "C11"

    def followups(self, ns):
        """one-step follow-up assignments to every location some definition reads"""
        read = set()
        for t in ns.tasks.values():
            read |= set(t.reads)
        out = []
        for L in list(self.world["leaves"]) + ([self.world["index_leaf"]] if self.world.get("index_leaf") else []):
            if any(T.overlap(L, r) for r in read) and ("E", L) not in ns.tasks:
                out.append(("set", L, 7 if L != self.world.get("index_leaf") else 1))
        return out

    def judge_followups(self, mk, label, ns, hist, op, issues):
        """apply every follow-up to a fresh rebuild and judge it against the reference model (the original manager's own
        reaction to the same assignment is the next level of the search, judged against the same model)"""
        for f in self.followups(ns):
            ns2, ex2 = RM.step(ns, f)
            ww = mk()
            ww.trace.reset()
            exc = None
            try:
                ww.apply(f)
            except Exception as e:  # noqa
                exc = e
            v = mgr.judge(ww, ns, f, ns2, ex2, exc)
            if v.kind == "violation":
                issues.append(self.issue("violation", hist, op, f"{label} reacts wrongly to the follow-up {mgr.op_str(f)}: {v.what}",
                                         {"contents": repr(ww.contents()), "expected": repr(ns2.vals['s'])}))
                return

    def state_checks(self, w, ns, hist, op):
        issues = []
        m = w.m
        if any(t[0] != "E" for t in ns.tasks):
            return issues
        dump = m.dump()
        contents = w.contents()
        spec = dict(self.world)
        spec["data"] = contents
        terms = {T.path_str(tid[1]): (tid[1], t.term) for tid, t in ns.tasks.items()}

        # ---------------- dump -> load into a fresh manager over equivalent containers
        def loaded():
            tw = World(spec)
            tw.m.load(dump)
            return tw
        try:
            tw = loaded()
        except BaseException as e:  # noqa
            issues.append(self.issue("violation", hist, op, f"load(dump()) raised {type(e).__name__}: {str(e)[:160]}", {"dump": dump}))
            return issues
        if tw.m.dump() != dump:
            issues.append(self.issue("violation", hist, op, "the loaded manager's definitions differ from the dump",
                                     {"dump": dump, "loaded": tw.m.dump()}))
            return issues
        if not T.same(tw.contents(), contents):
            issues.append(self.issue("violation", hist, op, "loading changed the container contents"))
            return issues
        for (k1, t1), (k2, t2) in zip(m.tasks.items(), tw.m.tasks.items()):
            d1 = sorted(str(x) for x in t1.dependencies)
            d2 = sorted(str(x) for x in t2.dependencies)
            v1 = E.outcome(lambda: t1.expr._get_value())
            v2 = E.outcome(lambda: t2.expr._get_value())
            if str(k1) != str(k2) or d1 != d2 or v1[0] != v2[0] or (v1[0] == "ok" and not T.same(v1[1], v2[1])):
                issues.append(self.issue("violation", hist, op, f"definition of {k1} differs after dump/load: value {v1} vs {v2}, "
                                                                f"dependencies {d1} vs {d2}"))
                return issues
        # the loaded manager is, state for state, the manager obtained by typing the same definitions in dump order
        direct = World(spec)
        for lhs, _ in dump:
            path, term = terms[lhs]
            direct.apply(("def", path, term))
        if graph_canon(direct) != graph_canon(tw):
            issues.append(self.issue("violation", hist, op, "the manager rebuilt by load(dump()) differs from the one obtained by assigning the same "
                                                            "definitions in the same order", {"loaded": mgr.index_dump(tw.m), "direct": mgr.index_dump(direct.m),
                                                                                              "contents": repr(tw.contents()), "direct_contents": repr(direct.contents())}))
            return issues
        self.judge_followups(loaded, "the manager rebuilt by load(dump())", ns, hist, op, issues)
        if issues:
            return issues
        # ---------------- copy_expr_from with rebinding maps
        for top_label, nested in (("s", False), ("t", False), ("s", True), ("t", True)):
            bname = f"s -> {top_label}{'[sub]' if nested else ''}"

            def copied(top_label=top_label, nested=nested):
                c = Sub(self.world, contents, top_label, nested)
                bindings = None if (top_label == "s" and not nested) else {"s": c.bound}
                c.m.copy_expr_from(m, "s", bindings=bindings)
                return c
            try:
                c = copied()
            except BaseException as e:  # noqa
                issues.append(self.issue("violation", hist, op, f"copy_expr_from(binding {bname}) raised {type(e).__name__}: {str(e)[:160]}",
                                         {"dump": dump}))
                return issues
            if len(c.m.tasks) != len(dump):
                issues.append(self.issue("violation", hist, op, f"copy_expr_from copied {len(c.m.tasks)} of {len(dump)} definitions",
                                         {"dump": dump, "copied": sorted(map(str, c.m.tasks))}))
                return issues
            for tid, t in ns.tasks.items():
                tgt = c.ref(tid[1])
                e = tgt._expr
                want = T.to_ref(t.term, c.roots)
                if e is None or not (e == want) or hash(e) != hash(want):
                    issues.append(self.issue("violation", hist, op, f"copy_expr_from (binding {bname}): {tgt} is defined as {e}, expected {want}"))
                    return issues
            if not T.same(c.contents(), contents):
                issues.append(self.issue("violation", hist, op, f"copy_expr_from (binding {bname}) changed the container contents"))
                return issues
            # state for state the manager obtained by typing the definitions (in the order the copy registered them)
            direct = Sub(self.world, contents, top_label, nested)
            inv = {str(T.ref_of(c.roots, p)): (p, term) for p, term in terms.values()}
            for k in c.m.tasks:
                path, term = inv[str(k)]
                direct.apply(("def", path, term))
            if graph_canon(direct) != graph_canon(c):
                issues.append(self.issue("violation", hist, op, f"the manager built by copy_expr_from (binding {bname}) differs from the one obtained by "
                                                                f"assigning the same definitions in the same order",
                                         {"copied": mgr.index_dump(c.m), "direct": mgr.index_dump(direct.m)}))
                return issues
            if not nested:
                self.judge_followups(copied, f"the manager built by copy_expr_from (binding {bname})", ns, hist, op, issues)
                if issues:
                    return issues
            # ---- overwrite=False / True against a destination that already defines one of the targets differently
            if ns.tasks:
                (k0, t0) = next(iter(ns.tasks.items()))
                # the pre-existing definition reads a location the copied one does not read (so a replaced definition that is
                # not properly removed leaves edges which do not follow from the surviving definitions)
                spare = [L for L in (self.cfg.get("leaves") or self.world["leaves"])
                         if not T.overlap(L, k0[1]) and not any(T.overlap(L, r) for r in t0.reads) and ("E", L) not in ns.tasks]
                other = ("bin", "mul", ("lit", 2), ("loc", spare[0])) if spare else ("bin", "add", t0.term, ("lit", 100))
                for ow in (False, True):
                    c = Sub(self.world, contents, top_label, nested)
                    from xdeps.tasks import ExprTask
                    c.m.register(ExprTask(c.ref(k0[1]), T.to_ref(other, c.roots)))
                    try:
                        c.m.copy_expr_from(m, "s", bindings=None if (top_label == "s" and not nested) else {"s": c.bound}, overwrite=ow)
                    except BaseException as e:  # noqa
                        issues.append(self.issue("violation", hist, op, f"copy_expr_from(binding {bname}, overwrite={ow}) raised "
                                                                        f"{type(e).__name__}: {str(e)[:160]}"))
                        return issues
                    for tid, t in ns.tasks.items():
                        e = c.ref(tid[1])._expr
                        want = T.to_ref(other if (tid == k0 and not ow) else t.term, c.roots)
                        if e is None or not (e == want):
                            issues.append(self.issue("violation", hist, op, f"copy_expr_from(binding {bname}, overwrite={ow}) onto a manager that already "
                                                                            f"defines {c.ref(k0[1])}: {c.ref(tid[1])} is defined as {e}, expected {want}"))
                            return issues
                    if len(c.m.tasks) != len(ns.tasks):
                        issues.append(self.issue("violation", hist, op, f"copy_expr_from(binding {bname}, overwrite={ow}): {len(c.m.tasks)} definitions, "
                                                                        f"expected {len(ns.tasks)}"))
                        return issues
                    probs = check_indices(c.m, "")
                    if probs:
                        issues.append(self.issue("violation", hist, op, f"copy_expr_from(binding {bname}, overwrite={ow}) onto a manager that already "
                                                                        f"defines {c.ref(k0[1])} leaves indices that do not follow from the definitions: {probs[0]}"))
                        return issues
        # ---- ONE destination manager used twice: first a copy rebound to a nested ref, then a copy / a load WITHOUT rebinding, which
        # must land on the destination's own container labelled 's' (a rebinding is an argument of one call, not state)
        if ns.tasks:
            for second in ("copy", "load"):
                c = Sub(self.world, contents, "t", True)
                own = c.m.ref(wrap(contents, ("s",), c.trace), "s")
                roots_own = {"s": own, "f": c.roots["f"]}
                try:
                    c.m.copy_expr_from(m, "s", bindings={"s": c.bound})
                    if second == "copy":
                        c.m.copy_expr_from(m, "s")
                    else:
                        c.m.load(dump)
                except BaseException as e:  # noqa
                    issues.append(self.issue("violation", hist, op, f"copy_expr_from(binding s -> t['sub']) followed by a plain {second} on the same "
                                                                    f"destination raised {type(e).__name__}: {str(e)[:160]}"))
                    return issues
                for roots_, where in ((c.roots, "t['sub'] (first, rebound copy)"), (roots_own, f"the destination's own s (second, plain {second})")):
                    for tid, t in ns.tasks.items():
                        e = T.ref_of(roots_, tid[1])._expr
                        want = T.to_ref(t.term, roots_)
                        if e is None or not (e == want):
                            issues.append(self.issue("violation", hist, op, f"copy_expr_from(binding s -> t['sub']) followed by a plain {second} on the "
                                                                            f"same destination: on {where}, {T.ref_of(roots_, tid[1])} is defined as {e}, "
                                                                            f"expected {want}"))
                            return issues
                if len(c.m.tasks) != 2 * len(ns.tasks):
                    issues.append(self.issue("violation", hist, op, f"copy_expr_from(binding s -> t['sub']) followed by a plain {second}: "
                                                                    f"{len(c.m.tasks)} definitions, expected {2 * len(ns.tasks)}"))
                    return issues
        # ---- a rebinding map with TWO labels: the definitions also reference the function container 'f'; it is rebound to a ref
        # with another label while the destination owns an unrelated container labelled 'f'
        if any(_uses_call(t.term) for t in ns.tasks.values()):
            c = Sub(self.world, contents, "t", True)
            import xdeps
            m3 = xdeps.Manager()
            top = {"sub": wrap(contents, ("s",), c.trace), "other": 1}
            tref = m3.ref(top, "t")
            gref = m3.ref(T.Funcs(), "g")
            m3.ref({"dbl": None}, "f")            # a decoy: the destination's own 'f' is something else
            try:
                m3.copy_expr_from(m, "s", bindings={"s": tref["sub"], "f": gref})
            except BaseException as e:  # noqa
                issues.append(self.issue("violation", hist, op, f"copy_expr_from with the two-label rebinding map {{s -> t['sub'], f -> g}} raised "
                                                                f"{type(e).__name__}: {str(e)[:160]}"))
                return issues
            roots3 = {"s": tref["sub"], "f": gref}
            for tid, t in ns.tasks.items():
                e = T.ref_of(roots3, tid[1])._expr
                want = T.to_ref(t.term, roots3)
                if e is None or not (e == want):
                    issues.append(self.issue("violation", hist, op, f"copy_expr_from with the rebinding map {{s -> t['sub'], f -> g}}: "
                                                                    f"{T.ref_of(roots3, tid[1])} is defined as {e}, expected {want}"))
                    return issues
        # ---- only the named container's definitions are copied: a second container whose label extends the copied label
        if ns.tasks:
            from xdeps.tasks import ExprTask
            extra = {"x": 1, "y": 2}
            s2 = m.ref(extra, "s2")
            m.register(ExprTask(s2["y"], s2["x"] * 2))
            c = Sub(self.world, contents, "s", False)
            d2 = {"x": 5, "y": 6}
            c2 = c.m.ref(d2, "s2")
            try:
                c.m.copy_expr_from(m, "s")
            except BaseException as e:  # noqa
                issues.append(self.issue("violation", hist, op, f"copy_expr_from with a second container 's2' in the source raised {type(e).__name__}: {e}"))
                return issues
            if c2["y"]._expr is not None or len(c.m.tasks) != len(ns.tasks):
                issues.append(self.issue("violation", hist, op, "copy_expr_from(m, 's') also copied definitions of the container 's2' "
                                                                f"({sorted(map(str, c.m.tasks))})"))
        return issues


# ---------------------------------------------------------------------- (E) term level
KEYS = ["a", "s", "f", "s_a", "a.b", "a']['b", "s['a']", "x y", "é", 0, 1, -1, 10, 2 ** 64 + 5, -(2 ** 70), 2 ** 31]
CONSTS = [0, 1, -1, 2, 7, -3, 0.5, -2.5, 1e10, 1e-7, -1e-3, 123456789, 2.0, -0.0, 0.0,
          1 / 3, 0.1 + 0.2, 2 ** 0.5]      # floats that need 16-17 significant digits to print exactly


def term_world():
    import xdeps
    data = {"a": 4, "b": 9.5, "i": 1, "n": {"x": 2, "y": -6}, "l": [5, 8, 13], "o": T.PObj(p=3, q=11.25), "out": None}
    for k in KEYS:
        data.setdefault(k, 3)
    m = xdeps.Manager()
    funcs = T.Funcs()
    roots = {"s": m.ref(data, "s"), "f": m.ref(funcs, "f")}
    return data, funcs, m, roots


def term_corpus(tier):
    A, B = ("s", ("i", "a")), ("s", ("i", "b"))
    NX, OP = ("s", ("i", "n"), ("i", "x")), ("s", ("i", "o"), ("a", "p"))
    locs = [("loc", A), ("loc", B), ("loc", NX), ("loc", OP), ("loc", ("s", ("i", "l"), ("i", 1)))]
    lits = [("lit", c) for c in CONSTS]
    leaves = locs[:3] + lits
    terms = []
    # keys of every kind, item and attribute steps
    for k in KEYS:
        terms.append(("loc", ("s", ("i", k))))
        terms.append(("loc", ("s", ("i", "n"), ("i", k))))
        if isinstance(k, str) and k.isidentifier():
            terms.append(("loc", ("s", ("i", "o"), ("a", k))))
    d1 = list(E.depth1(E.BINOPS, leaves))
    terms += d1
    terms += [("un", k, x) for k in T.UN for x in locs + lits[:6]]
    terms += [("un", k, x) for k in T.UN for x in d1[::17]]
    core = [("loc", A), ("loc", NX), ("lit", -3), ("lit", 0.5), ("lit", 1e-7)]
    inner = list(E.depth1(E.BINOPS, core))
    step = 1 if tier == "thorough" else 3
    terms += list(E.depth2_linear(E.BINOPS, inner[::step], core))
    if tier == "thorough":
        pw = [("bin", "pow", a, b) for a in core for b in core if T.has_ref(a) or T.has_ref(b)]
        terms += list(E.depth2_linear([("bin", "pow"), ("bin", "sub"), ("bin", "truediv")], list(E.depth2_linear([("bin", "pow"), ("bin", "mul")], pw, core[:3])), core[:3]))
    # builtins with and without parameters, math functions
    args = locs + d1[::23]
    for x in args:
        terms += [("bi", "abs", x, ()), ("bi", "round", x, ()), ("bi", "trunc", x, ()), ("bi", "floor", x, ()), ("bi", "ceil", x, ())]
        for n in (0, 1, 2, -1):
            terms.append(("bi", "round", x, (("lit", n),)))
        for n in (2, -3, 0.5):
            terms.append(("bi", "divmod", x, (("lit", n),)))
        terms.append(("bi", "round", x, (("loc", ("s", ("i", "i"))),)))
        terms.append(("bi", "divmod", x, (("loc", A),)))
    # calls with positional / keyword numeric arguments
    for x in args[:8]:
        terms += [("call", "dbl", (x,), ()), ("call", "pick", (x,), (("k", ("lit", 3)),)), ("call", "pick", (x,), (("k", ("lit", -2.5)),)),
                  ("call", "pick", (("lit", 2),), (("k", x),)), ("call", "hyp", (x, ("lit", -1e-3)), ()), ("call", "hyp", (("lit", 7), x), ())]
    terms += [("call", "total", (("loc", ("s", ("i", "l"))),), ())]
    # string literals as positional / keyword arguments, keywords in non-alphabetical order
    for x in args[:6]:
        terms += [("call", "scale", (x, ("lit", "k")), ()), ("call", "scale", (x,), (("unit", ("lit", "m")),)),
                  ("call", "pick", (), (("x", x), ("k", ("lit", 2)))), ("call", "hyp", (), (("y", x), ("x", ("lit", -1.5)))),
                  ("call", "kw", (x, ("lit", "a'b")), (("z", ("lit", "mrad")), ("a", x)))]
    # computed keys
    terms += [("dyn", ("s", ("i", "l")), ("loc", ("s", ("i", "i")))), ("dyn", ("s", ("i", "l")), ("bin", "sub", ("loc", ("s", ("i", "i"))), ("lit", 1))),
              ("dyn", ("s", ("i", "l")), ("bin", "mod", ("loc", A), ("lit", 3)))]
    # wrap everything once more in an operator with a negative / exponent literal on each side
    extra = []
    for t in terms[::5]:
        extra += [("bin", "pow", ("lit", -3), t), ("bin", "pow", t, ("lit", -2)), ("bin", "sub", ("lit", 1e-7), t), ("un", "neg", t),
                  ("bin", "mul", ("lit", -2.5), t)]
    terms += extra
    seen = {}
    for t in terms:
        seen.setdefault(repr(t), t)
    return list(seen.values())


def too_big(t, plain):
    """True when evaluating the term would build astronomically large integers (a ** (a ** (a ** a)), x << 10**9):
    decided by a float shadow evaluation; such terms are left out of the corpus (counted)."""
    class Big(Exception):
        pass

    def f(t):
        k = t[0]
        if k == "lit":
            return float(t[1])
        if k in ("loc", "dyn", "call", "cmp"):
            try:
                v = T.ev(t, plain) if k != "call" and k != "dyn" else 100.0
                return float(v) if isinstance(v, (int, float)) else 1.0
            except Exception:  # noqa
                return 1.0
        if k == "un":
            return f(t[2])
        if k == "bi":
            return abs(f(t[2])) + 1
        a, b = f(t[2]), f(t[3])
        op = t[1]
        try:
            if op == "pow":
                if a != 0 and abs(b) * abs(math.log2(abs(a)) if abs(a) not in (0.0, 1.0) else 0.0) > 5000:
                    raise Big
                r = abs(a) ** b if a != 0 else 0.0
                return r if isinstance(r, float) else 1.0
            if op == "lshift":
                if b > 5000:
                    raise Big
                return a * 2.0 ** max(b, 0)
            if op in ("add", "sub"):
                return abs(a) + abs(b)
            if op == "mul":
                return a * b
            return max(abs(a), abs(b), 1.0)
        except OverflowError:
            raise Big
        except (ZeroDivisionError, ValueError):
            return 1.0
    try:
        f(t)
        return False
    except Big:
        return True
    except Exception:  # noqa
        return False


def ns_for_eval(roots):
    ns = {"s": roots["s"], "f": roots["f"], "math": math, "floor": math.floor, "ceil": math.ceil, "trunc": math.trunc}
    return ns


def check_terms(chunk):
    import warnings
    warnings.simplefilter("ignore")
    where = None
    if isinstance(chunk, tuple):          # (tier, first index, terms): recorded in the issues so that a replay can re-run the whole chunk
        where = {"tier": chunk[0], "lo": chunk[1]}
        chunk = chunk[2]
    data, funcs, m, roots = term_world()
    out = {"evaluations": 0, "issues": [], "texts": set(), "outcomes": {}}
    ns = ns_for_eval(roots)
    for t in chunk:
        out["evaluations"] += 1
        what = None
        if too_big(t, {"s": data, "f": funcs}):
            out["outcomes"]["skipped_astronomic"] = out["outcomes"].get("skipped_astronomic", 0) + 1
            continue
        try:
            e = T.to_ref(t, roots)
        except Exception as ex:  # noqa
            out["outcomes"]["unbuildable"] = out["outcomes"].get("unbuildable", 0) + 1
            continue
        if not hasattr(e, "_get_value"):
            continue
        try:
            txt = str(e)
        except Exception as ex:  # noqa
            if len(out["issues"]) < 30:
                out["issues"].append({"kind": "violation", "property": "C11", "finding": None, "config": {},
                                      "what": f"printing the expression {T.show(t)} raised {type(ex).__name__}: {ex}",
                                      "program": [f"str({T.show(t)})"], "case": {"term": repr(t), "chunk": where}})
            continue
        out["texts"].add(txt)
        try:
            e2 = eval(txt, dict(ns))
        except BaseException as ex:  # noqa
            what = f"the printed form {txt!r} cannot be evaluated back: {type(ex).__name__}: {ex}"
            e2 = None
        if what is None:
            v1, v2 = E.outcome(lambda: e._get_value()), E.outcome(lambda: e2._get_value() if hasattr(e2, "_get_value") else e2)
            oc = v1[0] if v1[0] != "ok" else "ok"
            out["outcomes"][oc] = out["outcomes"].get(oc, 0) + 1
            if not hasattr(e2, "_get_value"):
                what = f"the printed form {txt!r} evaluates to the plain value {e2!r}, not to an expression"
            elif v1[0] != v2[0] or (v1[0] == "ok" and not T.same(v1[1], v2[1])):
                what = f"{txt!r} rebuilds an expression with value {v2!r}; the original evaluates to {v1!r}"
            elif not (e2 == e) or hash(e2) != hash(e):
                what = f"{txt!r} rebuilds {e2!r}, not equal / hash-equal to the original"
            else:
                d1 = e._get_dependencies()
                d2 = e2._get_dependencies()
                if d1 != d2:
                    what = f"{txt!r} rebuilds an expression with dependencies {sorted(map(str, d2))}, the original has {sorted(map(str, d1))}"
                elif str(e2) != txt:
                    what = f"{txt!r} rebuilds an expression that prints differently: {str(e2)!r}"
        if what is None:
            # Manager.load must be able to rebuild it too (its own namespace), giving the same value
            try:
                m.load([("s['out']", txt)])
                e3 = roots["s"]["out"]._expr
                v1, v3 = E.outcome(lambda: e._get_value()), E.outcome(lambda: e3._get_value())
                if v1[0] != v3[0] or (v1[0] == "ok" and not T.same(v1[1], v3[1])) or not (e3 == e):
                    what = f"Manager.load rebuilds {txt!r} as {e3!r} with value {v3!r}; the original evaluates to {v1!r}"
                m.unregister(roots["s"]["out"])
            except BaseException as ex:  # noqa
                what = f"Manager.load cannot rebuild {txt!r}: {type(ex).__name__}: {ex}"
        if what:
            # recorded finding: deferred equality nodes (built only through ._eq() / ._neq(), because == on refs is structural
            # equality) print as a Python comparison, which is the text generated functions need but which evaluates back to a
            # plain bool.  Only that exact failure shape on a term that contains such a node is attributed to the finding.
            # (a consequence inside a larger term is the same failure: the sub-term has become a bool.)  Every operator and
            # node kind also occurs in the corpus without such a node, so another defect cannot hide behind this classification.
            known = has_cmp(t) and ("==" in txt or "!=" in txt)
            if known:
                out["known_eq_repr"] = out.get("known_eq_repr", 0) + 1
                if out.get("known_eq_repr", 0) <= 2:
                    out["issues"].append({"kind": "known", "property": "C11", "finding": "eq-repr", "what": what, "config": {},
                                          "program": [f"e = {T.show(t)}", "eval(str(e), namespace)"], "case": {"term": repr(t)}})
            elif len(out["issues"]) < 30:
                out["issues"].append({"kind": "violation", "property": "C11", "finding": None, "what": what, "config": {},
                                      "program": [f"e = {T.show(t)}", "eval(str(e), namespace)"], "case": {"term": repr(t), "chunk": where}})
    return out


def has_cmp(t):
    if not isinstance(t, tuple):
        return False
    if t and t[0] == "cmp":
        return True
    return any(has_cmp(x) for x in t if isinstance(x, tuple))


# ---------------------------------------------------------------------- nested targets: an element and the container holding it
def overlap_cases():
    """managers that define an ELEMENT of a container and the CONTAINER itself (either order), dumped and loaded / copied into a
    fresh destination or one that already defines the element or the container, overwrite False / True.  Only the set of
    definitions is compared (how such a pair reacts to assignments is outside C01's domain)."""
    import xdeps
    fc = {"list": lambda a, n=2: [a * k for k in range(n)], "dict": lambda a, n=2: {"x": a, "y": a * n},
          "obj": lambda a, n=2: T.PObj(x=a, y=a * n)}

    def fresh(kind):
        m = xdeps.Manager()
        if kind == "list":
            c = {"a": 1, "b": 2, "n": [0, 0, 0]}
            el = lambda v: v["n"][2]  # noqa
        elif kind == "dict":
            c = {"a": 1, "b": 2, "n": {"x": 0, "y": 0}}
            el = lambda v: v["n"]["y"]  # noqa
        else:
            c = {"a": 1, "b": 2, "n": T.PObj(x=0, y=0)}
            el = lambda v: v["n"].y  # noqa
        return m, m.ref(c, "v"), m.ref(fc, "f"), el

    out, n = [], 0
    for kind in ("list", "dict", "obj"):
        for order in ("element-first", "container-first"):
            src, vs, fs, el = fresh(kind)
            defs = [("el", lambda v, f: v["b"] * 2), ("co", lambda v, f: f[kind](v["a"], n=3))]
            if order == "container-first":
                defs.reverse()
            for which, mk in defs:
                if which == "el":
                    src.set_value(el(vs), mk(vs, fs))
                else:
                    vs["n"] = mk(vs, fs)
            dump = src.dump()
            for pre in (None, "el", "co"):
                for ow in (False, True):
                    for how in ("load", "copy"):
                        n += 1
                        dst, vd, fd, eld = fresh(kind)
                        expect = dict(dump)
                        if pre == "el":
                            dst.set_value(eld(vd), vd["a"] - vd["b"])
                            if not ow:
                                expect[str(eld(vd))] = str(vd["a"] - vd["b"])
                        elif pre == "co":
                            vd["n"] = fd[kind](vd["b"])
                            if not ow:
                                expect[str(vd["n"])] = str(fd[kind](vd["b"]))
                        prog = [f"source ({kind}, {order}): dump = {dump}", f"destination pre-defines: {pre}", f"{how}(overwrite={ow})"]
                        try:
                            if how == "load":
                                dst.load(dump, overwrite=ow)
                            else:
                                dst.copy_expr_from(src, "v", overwrite=ow)
                            got = dict(dst.dump())
                            what = None if got == expect else f"definitions after {how}(overwrite={ow}): {sorted(got.items())}, expected {sorted(expect.items())}"
                        except Exception as e:  # noqa
                            what = f"{how}(overwrite={ow}) raised {type(e).__name__}: {e}"
                        if what:
                            out.append({"kind": "violation", "property": "C11", "finding": None, "config": {}, "program": prog,
                                        "what": "an element and the container holding it both defined: " + what, "case": {"overlap": prog}})
    return n, out


# ---------------------------------------------------------------------- driver
def plan(tier, seed):
    seeds = common.seeds_for(tier, seed, quick=(0,), thorough=(0, 1))
    jobs = [{"name": "terms", "mode": "compiled", "hashseed": seed % 2 ** 32, "nproc": 4, "timeout": 3000, "args": {"what": "terms", "tier": tier}}]
    # W-deep: targets three levels below the copied container
    runs = [("W-mix", "mix", 2), ("W-nest", "nest", 2), ("W-label", "label", 2), ("W-flat", "tiny", 4), ("W-deep", "tiny", 3)] if tier == "quick" else \
        [("W-deep", "nest", 2), ("W-deep", "tiny", 4), ("W-mix", "mix", 2), ("W-nest", "nest", 2), ("W-label", "label", 2), ("W-flat", "tiny", 6), ("W-nest-4", "tiny", 5), ("W-nest-4", "nest", 3)]
    for hs in seeds:
        for wname, alpha, depth in runs:
            jobs.append({"name": f"bfs:{wname}:{alpha}:d{depth}:seed{hs}", "mode": "compiled", "hashseed": hs, "nproc": 4 if tier == "quick" else 8,
                         "timeout": 3300, "args": {"what": "bfs", "world": wname, "alphabet": alpha, "depth": depth, "time_cap": 2400, "tier": tier}})
    return {"level": LEVEL, "jobs": jobs,
            "assumptions": ["constants are finite Python ints/floats (the property's constant language); the namespace for term-level "
                            "re-evaluation binds the container labels, math and floor/ceil/trunc; loadability by Manager.load is checked separately",
                            "load() registers definitions without running them, so 'equivalent containers' hold the values the original holds",
                            "twin comparisons judge each side against the reference model; no agreement is required where the recorded "
                            "sibling-cycle finding leaves the order under-determined"]}


def run_job(job):
    a = job["args"]
    if a["what"] == "terms":
        corpus = term_corpus(a["tier"])
        r = E.pmap(check_terms, [(a["tier"], lo, corpus[lo:lo + 400]) for lo in range(0, len(corpus), 400)], job.get("nproc", 1))
        n_ov, ov = overlap_cases()
        return {"kind": "terms", "evaluations": r["evaluations"] + n_ov, "issues": r["issues"] + ov, "texts": len(r.get("texts", ())),
                "outcomes": r.get("outcomes", {}), "corpus": len(corpus), "overlap_cases": n_ov}
    w = WORLDS[a["world"]]
    return common.run_bfs(System(w, alphabet(w, a["alphabet"], a.get("tier", "thorough")), common.config_info(job)), job)


def finish(plan_, results):
    cov, issues = common.merge_bfs(results)
    for r in results:
        if r.get("kind") == "terms":
            issues.extend(r["issues"])
            cov["element_and_container_both_defined_cases"] = r.get("overlap_cases")
            cov["term_level"] = {"expressions": r["corpus"], "distinct_printed_forms": r["texts"], "outcomes": common.jsonable(r["outcomes"])}
            cov["evaluations"] = int(r["evaluations"])
            cov["distinct_nontrivial"] = int(r["texts"])
    cov["samples"] = [{"history": it.get("program"), "what": it["what"]} for it in issues[:3]] or [
        {"term": "((-3) ** round((s['a'] / 4), 1))", "checked": "eval(str(e)) == e, same value, same dependencies, loadable"},
        {"history": ["s['n']['x'] = (2 * s['a'])", "m.load([...], overwrite=False)"], "checked": "dump/load twin and copy_expr_from twins vs reference model"}]
    return cov, issues


def replay(issue):
    import ast
    if "overlap" in issue.get("case", {}):
        bad = [i for i in overlap_cases()[1] if i["case"] == issue["case"]]
        return {"still_fails": bool(bad), "what": bad[0]["what"] if bad else "ok"}
    if "term" in issue.get("case", {}):
        case = issue["case"]
        r = check_terms([ast.literal_eval(case["term"])])
        bad = [i for i in r["issues"] if i["kind"] == "violation"]
        if not bad and case.get("chunk"):
            # the failure may depend on what was printed / evaluated earlier in the same process: re-run the whole chunk
            corpus = term_corpus(case["chunk"]["tier"])
            lo = case["chunk"]["lo"]
            r = check_terms((case["chunk"]["tier"], lo, corpus[lo:lo + 400]))
            bad = [i for i in r["issues"] if i["kind"] == "violation" and i["case"]["term"] == case["term"]]
            if not bad:
                # worker processes of the original run handled several chunks in an order that is not recorded: as a last resort
                # run the whole corpus in this one process and report any violation of the term-level check
                for lo2 in range(0, len(corpus), 400):
                    r = check_terms((case["chunk"]["tier"], lo2, corpus[lo2:lo2 + 400]))
                    bad = [i for i in r["issues"] if i["kind"] == "violation"]
                    if bad:
                        break
        return {"still_fails": bool(bad), "what": bad[0]["what"] if bad else "ok"}
    return replay_history(System, issue)
