"""C13 — generated setter functions are equivalent to assigning through the
manager.  Model checking: on every reached acyclic state of expression tasks,
for every non-empty subset (size <= 3) of leaf references and every value
vector over {3, 5}, the function produced by gen_fun is called on one replica
and the same values are assigned one by one through the manager on a twin
replica; both are compared with the reference model, and the emitted source
(mk_fun) must list exactly the triggered tasks, once each, in precise
data-flow order."""
import itertools

from .. import mgr
from .. import refmodel as RM
from .. import terms as T
from ..mgr import ManagerSystem, WORLDS
from . import common
from .c01 import replay_history

LEVEL = "model_checking"

CFG_NEST = {"values": (3,), "templates": ("mul2", "add", "inc"), "iops": (("add", ("lit", 1)),), "unreg": True}
CFG_MIX = {"values": (3,), "index_values": (1,), "templates": ("mul2", "add", "dbl", "pick", "total", "dyn", "abs", "neg", "unit", "kw2", "round1", "floor"),
           "unreg": True, "setc": True}
CFG_MIX_Q = {"values": (3,), "index_values": (1,), "templates": ("mul2", "pick", "total", "dyn", "unit", "kw2", "abs", "round1", "floor"), "unreg": True}
CFG_REDUCED = {"values": (3,), "templates": ("mul2", "inc"), "unreg": True}
# gen_fun as an operation of the history (it may leave state behind, e.g. a source cache), small alphabet, deeper
# right-nested chains with floats for which re-association changes the result
CFG_ASSOC = {"values": (0.1,), "templates": ("addr", "mulr"), "unreg": False, "call_values": (0.1, 0.2)}
# argument values beyond the float range: true division / modulo against a float make Python raise OverflowError; the generated
# function and the manager must then fail alike (same exception type, same state left behind)
CFG_BIG = {"values": (3,), "templates": ("bigdiv", "mul2"), "unreg": False, "call_values": (3, 10 ** 400), "leaves_n": 3}
CFG_GEN = {"values": (3,), "templates": ("mul2",), "unreg": True, "leaves_n": 3}
# definitions that differ only in literals whose hashes coincide (-1 / -2): whatever is cached per expression must not be keyed by hash
CFG_HASHLIT = {"values": (3,), "templates": ("mulm1", "mulm2"), "unreg": True, "leaves_n": 3}
# argument values that are EQUAL to what the location holds but not the same (3.0 over 3, True over 1): both routes store them
CFG_EQVAL = {"values": (3,), "templates": ("mul2",), "unreg": False, "call_values": (3, 3.0, 1, True), "leaves_n": 3}
ALPHABETS = {"eqval": CFG_EQVAL, "nest": CFG_NEST, "mix": CFG_MIX, "mixq": CFG_MIX_Q, "reduced": CFG_REDUCED, "gen": CFG_GEN, "assoc": CFG_ASSOC, "big": CFG_BIG, "hashlit": CFG_HASHLIT}


def alphabet_for(world, name):
    cfg = dict(ALPHABETS[name])
    n = cfg.pop("leaves_n", None)
    if n:
        leaves = world["leaves"][:n]
        cfg["leaves"] = leaves
        cfg["sources"] = leaves
        if name == "gen":
            cfg["extra"] = [("genfun", (L,)) for L in leaves] + [("genfun", tuple(leaves[:2]))]
    return cfg
MAXARGS = 3


class System(ManagerSystem):
    prop = "C13"
    maxargs = MAXARGS

    def __init__(self, *a, **k):
        super().__init__(*a, **k)
        self._stats = {}

    def state_checks(self, w, ns, hist, op):
        issues = []
        if any(t.kind != "E" for t in ns.tasks.values()):
            return issues
        full = hist + (self.universe.index(op),)
        free = [L for L in (self.cfg.get("leaves") or self.world["leaves"]) if ("E", L) not in ns.tasks]
        st = self._stats
        for k in range(1, min(self.maxargs, len(free)) + 1):
            for subset in itertools.combinations(free, k):
                st["subsets"] = st.get("subsets", 0) + 1
                wf = self.replay(full)
                wt = self.replay(full)
                kwargs = {f"a{i}": wf.ref(L) for i, L in enumerate(subset)}
                try:
                    src = wf.m.mk_fun("fn", **kwargs)
                    fn = wf.m.gen_fun("fn", **kwargs)
                    if k == 1:
                        # the name of the generated function is the user's choice: a name that is also a container label
                        for label in ("s", "f"):
                            w3 = self.replay(full)
                            g = w3.m.gen_fun(label, **{f"a{i}": w3.ref(L) for i, L in enumerate(subset)})
                            g(5)
                            w4 = self.replay(full)
                            w4.m.gen_fun("fn", **{f"a{i}": w4.ref(L) for i, L in enumerate(subset)})(5)
                            if not T.same(w3.contents(), w4.contents()):
                                issues.append(self.issue("violation", hist, op, f"gen_fun({label!r}, ...) behaves differently from gen_fun('fn', ...)",
                                                         {"args": [T.path_str(L) for L in subset]}))
                except Exception as e:  # noqa
                    issues.append(self.issue("violation", hist, op, f"gen_fun raised {type(e).__name__}: {e}",
                                             {"args": [T.path_str(L) for L in subset]}))
                    continue
                # --- the emitted source: triggered tasks, once each, in order
                trig = set()
                for L in subset:
                    trig |= ns.trigger(L)[1]
                lines = [l.strip() for l in src.split("\n")[1 + k:]]
                lines = [l for l in lines if l and not l.startswith("#") and l not in ("pass", "return")]
                want = {f"{T.path_str(t[1])}": t for t in trig}
                emitted = []
                bad_line = None
                for l in lines:
                    tgt = l.split(" = ", 1)[0]
                    if tgt not in want:
                        bad_line = l
                        break
                    emitted.append(want[tgt])
                info = {"args": [T.path_str(L) for L in subset], "source": src}
                underdet = mgr.order_underdetermined(ns, trig)
                if bad_line is not None:
                    issues.append(self.issue("violation", hist, op, f"generated function contains a task outside the downstream set: {bad_line}", info))
                    continue
                if len(set(emitted)) != len(emitted):
                    issues.append(self.issue("violation", hist, op, "generated function lists a task twice", info))
                if set(emitted) != trig:
                    issues.append(self.issue("violation", hist, op,
                                             f"generated function omits downstream task(s) {sorted(map(str, trig - set(emitted)))}", info))
                    continue
                badorder = mgr.order_violations(emitted, ns)
                if badorder:
                    if all(mgr.spurious_path(ns, b, a) for a, b in badorder):
                        issues.append(self.issue("known", hist, op, "sibling-cycle", dict(info, violated=str(badorder)), finding="sibling-cycle"))
                    else:
                        issues.append(self.issue("violation", hist, op, f"generated function runs a consumer before its producer: {badorder}", info))
                    continue
                # --- behaviour on every value vector (applied in sequence, so later calls start from non-initial states)
                mstate = ns
                vecs = list(itertools.product(self.cfg.get("call_values", (3, 5)), repeat=k))
                # ... and, at the end, the LAST vector once more after one argument location was changed by another route (through
                # the manager): the same function called twice with the same values must assign them twice
                route = ("route", subset[0], 9 if not isinstance(vecs[-1][0], float) else 0.9)
                for vals in vecs + ([route, vecs[-1]] if not self.cfg.get("no_repeat") else []):
                    st["calls"] = st.get("calls", 0) + 1
                    if vals[0] == "route":
                        try:
                            wf.apply(("set", vals[1], vals[2]))
                            wt.apply(("set", vals[1], vals[2]))
                            mstate, _ = RM.step(mstate, ("set", vals[1], vals[2]))
                        except Exception:  # noqa  (judged by C01; here it only prepares the repeated call)
                            break
                        continue
                    fexc = None
                    try:
                        fn(*vals)
                    except Exception as e:  # noqa
                        fexc = e
                    mexc = None
                    texc = None
                    for L, v in zip(subset, vals):
                        try:
                            wt.apply(("set", L, v))
                        except Exception as e:  # noqa
                            texc = texc or e
                        try:
                            mstate, _ = RM.step(mstate, ("set", L, v))
                        except (OverflowError, ZeroDivisionError) as e:
                            mexc = mexc or e
                    if mexc is not None:
                        # Python itself raises on these values: both executions must fail alike and leave the same state behind
                        st["calls_where_python_raises"] = st.get("calls_where_python_raises", 0) + 1
                        if type(fexc) is not type(texc) or not T.same(wf.contents(), wt.contents()):
                            issues.append(self.issue("violation", hist, op,
                                                     f"argument values {vals!r} make Python raise {type(mexc).__name__}: the generated function gave "
                                                     f"{type(fexc).__name__ if fexc else 'no exception'}, assigning through the manager gave "
                                                     f"{type(texc).__name__ if texc else 'no exception'}"
                                                     + ("" if T.same(wf.contents(), wt.contents()) else "; the states left behind differ"), info))
                        break
                    if fexc is not None:
                        issues.append(self.issue("violation", hist, op, f"generated function raised {type(fexc).__name__}: {fexc}", info))
                        break
                    if texc is not None:
                        issues.append(self.issue("violation", hist, op, f"assigning through the manager raised {type(texc).__name__}: {texc}", info))
                        break
                    exp = mstate.vals["s"]
                    of, ot = wf.contents(), wt.contents()
                    if not T.same(of, exp):
                        issues.append(self.issue("violation", hist, op,
                                                 "state after the generated function differs from assigning through the manager (reference model)",
                                                 dict(info, values=vals, diff=mgr.diff_contents(of, exp)[:6])))
                        break
                    if not T.same(ot, exp):
                        if underdet:
                            st["twin_not_compared_order_underdetermined"] = st.get("twin_not_compared_order_underdetermined", 0) + 1
                            break
                        issues.append(self.issue("violation", hist, op, "assigning through the manager differs from the reference model",
                                                 dict(info, values=vals, diff=mgr.diff_contents(ot, exp)[:6])))
                        break
        return issues

    def expand(self, hist):
        self._stats = {}
        r = super().expand(hist)
        r["stats"]["genfun"] = self._stats
        return r


def plan(tier, seed):
    seeds = common.seeds_for(tier, seed, quick=(0,), thorough=(0, 1, 2))
    jobs = []
    if tier == "quick":
        runs = [("W-nest", "reduced", 2), ("W-nest-4", "reduced", 3), ("W-mix", "mixq", 2), ("W-flat", "gen", 4), ("W-flat", "assoc", 2), ("W-flat", "big", 2),
                ("W-flat", "hashlit", 3), ("W-flat", "eqval", 2)]
    else:
        runs = [("W-nest", "nest", 2), ("W-nest", "reduced", 2), ("W-nest-4", "reduced", 4), ("W-mix", "mix", 2), ("W-mix", "mixq", 2), ("W-flat", "gen", 6),
                ("W-nest-4", "gen", 5), ("W-flat", "assoc", 3), ("W-nest-4", "assoc", 2), ("W-flat", "big", 3), ("W-flat", "hashlit", 4), ("W-nest-4", "hashlit", 3), ("W-flat", "eqval", 3)]
    for hs in seeds:
        for wname, alpha, depth in runs:
            jobs.append({"name": f"bfs:{wname}:{alpha}:d{depth}:seed{hs}", "mode": "compiled", "hashseed": hs,
                         "nproc": 8, "timeout": 3000,
                         "args": {"world": wname, "alphabet": alpha, "depth": depth, "time_cap": 1500,
                                  "maxargs": 2 if tier == "quick" else 3}})
    return {"level": LEVEL, "jobs": jobs,
            "assumptions": ["no division by zero (excluded by the property); values {3, 5}",
                            "leaf references are the locations not currently defined by an expression",
                            "when the model's ordering is under-determined by the recorded sibling-cycle finding, the emitted order is classified, not compared"]}


def run_job(job):
    a = job["args"]
    s = System(WORLDS[a["world"]], alphabet_for(WORLDS[a["world"]], a["alphabet"]), common.config_info(job))
    s.maxargs = a.get("maxargs", MAXARGS)
    return common.run_bfs(s, job)


def finish(plan_, results):
    cov, issues = common.merge_bfs(results)
    g = cov["stats"].get("genfun", {})
    cov["generated_functions"] = g.get("subsets", 0)
    cov["function_calls_compared"] = g.get("calls", 0)
    cov["samples"] = [{"history": it["program"], "what": it["what"], "detail": it.get("detail")} for it in issues[:3]] or \
        [{"note": "no issue found"}]
    cov["oracle"] = ("mk_fun lines == model trigger set, once each, precise order; contents after f(*values) == reference model == "
                     "twin driven by set_value, for every leaf subset (<=3) and value vector")
    return cov, issues


def replay(issue):
    return replay_history(System, issue)
