"""C05 — reported dependencies contain every location an expression reads.

Exhaustive enumeration (engine E) over: every BaseRef subclass found by
introspection x every operand slot (found generically on an instance) x a
filler family that puts a ref into that slot directly, one level and two
levels below other nodes (including a top-level container ref).

Exactness oracle: _get_dependencies() is a set equal to the set of
non-top-level item/attribute refs reachable through the slots of the
expression object.  Soundness oracle: perturb every location of the world
through set_value; whenever the expression's value changes the location must
be among the reported dependencies, and a dependant defined by the
expression must have been recomputed."""
import builtins
import inspect
import math
import operator

from .. import enumerate as E
from .. import terms as T
from . import common

LEVEL = "exploration"
NOT_SLOTS = {"_value", "_expr", "_tasks", "_hash", "_manager", "_op_str"}


def fresh_world():
    import xdeps
    data = {"a": 4, "b": 9, "i": 1, "k": "p", "n": {"x": 2, "y": 6}, "l": [5, 8, 13],
            "o": T.PObj(p=3, q=11), "fn": _inc, "out": None, "p": 17, "q": 23, -1: 31, -2: 37, "g": [[1, 2], [3, 4]],
            "fn0": _five, "src": _Src()}
    m = xdeps.Manager()
    s = m.ref(data, "s")
    f = m.ref(T.Funcs(), "f")
    return data, m, s, f


def _inc(v, w=0):
    return v + 1 + w


def _five():
    return 5


class _Src:
    def get(self):
        return 9


def _mk(v):
    return lambda: v * 3


def _grid(v):
    return [[v, v + 1], [v + 2, v + 3]]


class _Box:
    def __init__(self, v):
        self.v = [v, v * 2]


def _boxed(v, w=0):
    return _Box(v + w)


def _pq(v):
    return "p" if v % 2 else "q"


LEAVES = [
    ("s['a']", lambda s: s["a"], 5), ("s['b']", lambda s: s["b"], 10), ("s['i']", lambda s: s["i"], 2),
    ("s['k']", lambda s: s["k"], "q"), ("s['n']['x']", lambda s: s["n"]["x"], 3), ("s['n']['y']", lambda s: s["n"]["y"], 7),
    ("s['l'][0]", lambda s: s["l"][0], 6), ("s['l'][1]", lambda s: s["l"][1], 21), ("s['l'][2]", lambda s: s["l"][2], 14),
    ("s['o'].p", lambda s: s["o"].p, 30), ("s['o'].q", lambda s: s["o"].q, 12),
]


def base_fillers(s):
    """F0: refs placed directly into a slot"""
    return [
        ("item", s["a"]), ("attr", s["o"].q), ("nested", s["n"]["x"]), ("computed-key", s["l"][s["i"]]),
        ("computed-expr-key", s["l"][s["i"] - 1]),
        ("computed-key-under-top-level-container", s[s["k"]]),
    ]


def wrappers(refs, f):
    """functions that put a filler one level below another node"""
    return [
        ("add", lambda x: refs.AddExpr(x, 1)), ("radd", lambda x: refs.AddExpr(2, x)), ("neg", lambda x: refs.NegExpr(x)),
        ("call-arg", lambda x: refs.CallRef(f.dbl, (x,), ())), ("call-kw", lambda x: refs.CallRef(f.pick, (1,), {"k": x})),
        ("builtin-arg", lambda x: refs.BuiltinRef(x, builtins.abs)), ("builtin-param", lambda x: refs.BuiltinRef(1.26, builtins.round, (x,))),
        ("item-key", lambda x: refs.ItemRef(_L[0], refs.ModExpr(x, 3), _L[0]._manager)),
    ]


_L = [None]


def slot_names(obj):
    out = []
    for name in dir(obj):
        if not name.startswith("_") or name.startswith("__") or name in NOT_SLOTS:
            continue
        try:
            v = getattr(type(obj), name)
        except AttributeError:
            continue
        if inspect.isroutine(v) or isinstance(v, property):
            continue
        out.append(name)
    return out


def reachable(obj, refs, out, slots_seen):
    """non-top-level MutableRef nodes reachable through the slots"""
    if isinstance(obj, refs.BaseRef):
        if isinstance(obj, refs.MutableRef) and not isinstance(obj, refs.Ref):
            out.add(obj)
        for name in slot_names(obj):
            slots_seen.add((type(obj).__name__, name))
            reachable(getattr(obj, name), refs, out, slots_seen)
    elif isinstance(obj, (tuple, list)):
        for x in obj:
            reachable(x, refs, out, slots_seen)
    elif isinstance(obj, dict):
        for x in obj.values():
            reachable(x, refs, out, slots_seen)


def collect_nodes(obj, refs, out):
    """expression objects reachable through the slots, parent first"""
    if isinstance(obj, refs.BaseRef):
        if isinstance(obj, refs.Ref):
            return
        out.append(obj)
        for name in slot_names(obj):
            collect_nodes(getattr(obj, name), refs, out)
    elif isinstance(obj, (tuple, list)):
        for x in obj:
            collect_nodes(x, refs, out)
    elif isinstance(obj, dict):
        for x in obj.values():
            collect_nodes(x, refs, out)


def constructors(refs, s, f, m):
    """class -> list of (slot label, builder(filler) -> instance)"""
    table = {}
    for name, cls in inspect.getmembers(refs, inspect.isclass):
        if not issubclass(cls, refs.BaseRef):
            continue
        if cls in (refs.BaseRef, refs.MutableRef, refs.BinOpExpr, refs.UnaryOpExpr):
            table[cls] = "abstract"
        elif issubclass(cls, refs.BinOpExpr):
            lit = 3
            table[cls] = [("_lhs", lambda x, c=cls: c(x, 3)), ("_rhs", lambda x, c=cls: c(3, x)),
                          ("_lhs+_rhs", lambda x, c=cls: c(x, x)),
                          # two DIFFERENT operands whose structural hashes collide (hash(-1) == hash(-2) in CPython)
                          ("_lhs/_rhs with colliding hashes (list)", lambda x, c=cls: c(s["l"][-1], s["l"][-2])),
                          ("_lhs/_rhs with colliding hashes (container)", lambda x, c=cls: c(s[-1], s[-2])),
                          ("_lhs/_rhs colliding below other nodes", lambda x, c=cls: c(refs.NegExpr(refs.MulExpr(s["l"][-1], 2)), refs.NegExpr(refs.MulExpr(s["l"][-2], 2))))]
        elif issubclass(cls, refs.UnaryOpExpr):
            table[cls] = [("_arg", lambda x, c=cls: c(x))]
        elif cls is refs.LiteralExpr:
            table[cls] = [("_arg(no ref possible)", lambda x, c=cls: c(5))]
        elif cls is refs.BuiltinRef:
            table[cls] = [("_arg", lambda x, c=cls: c(x, builtins.abs)),
                          ("_arg(floor)", lambda x, c=cls: c(x, math.floor)),
                          ("_params[0]", lambda x, c=cls: c(7.126, builtins.round, (x,))),
                          ("_params[0](divmod)", lambda x, c=cls: c(17, builtins.divmod, (x,))),
                          ("_arg+_params", lambda x, c=cls: c(x, builtins.divmod, (x,)))]
        elif cls is refs.CallRef:
            table[cls] = [("_args[0]", lambda x, c=cls: c(f.dbl, (x,), ())),
                          ("_args[1]", lambda x, c=cls: c(f.hyp, (2, x), ())),
                          ("_kwargs[k]", lambda x, c=cls: c(f.pick, (2,), {"k": x})),
                          ("_kwargs(tuple form)", lambda x, c=cls: c(f.pick, (2,), (("k", x),))),
                          ("_func(ref to a stored callable)", lambda x, c=cls: c(s["fn"], (x,), ())),
                          ("_func(plain callable)", lambda x, c=cls: c(_inc, (x,), {"w": x})),
                          # calls WITHOUT any argument: the called function itself is the only thing read
                          ("_func(ref callee, no arguments)", lambda x, c=cls: c(s["fn0"], (), ())),
                          ("_func(bound method of a located object, no arguments)", lambda x, c=cls: c(s["src"].get, (), ())),
                          ("_func(curried: result of a call, no arguments)", lambda x, c=cls: c(c(_mk, (x,), ()), (), ()))]
        elif cls is refs.ItemRef:
            table[cls] = [("_key", lambda x, c=cls: c(s["l"], refs.ModExpr(x, 3), m)),
                          ("_key(top-level owner)", lambda x, c=cls: c(s, refs.CallRef(_pq, (x,), ()), m)),
                          ("_owner", lambda x, c=cls: c(x, 0, m)),
                          ("_owner+_key", lambda x, c=cls: c(x, x, m)),
                          ("two item levels above a computed owner", lambda x, c=cls: c(c(refs.CallRef(_grid, (x,), ()), 1, m), 0, m)),
                          ("item above attribute above a computed owner", lambda x, c=cls: c(refs.AttrRef(refs.CallRef(_boxed, (x,), {"w": x}), "v", m), 1, m)),
                          ("three levels above an operator result", lambda x, c=cls: c(c(c(refs.AddExpr(s["g"], x), 0, m), 1, m), 0, m))]
        elif cls is refs.AttrRef:
            table[cls] = [("_owner", lambda x, c=cls: c(x, "real", m)),
                          ("attribute above item above a computed owner", lambda x, c=cls: c(refs.ItemRef(refs.CallRef(_grid, (x,), ()), 1, m), "real", m)),
                          ("_key(computed)", lambda x, c=cls: c(s["o"], refs.CallRef(_pq, (x,), ()), m))]
        elif issubclass(cls, refs.Ref):
            table[cls] = [("top-level", lambda x, c=cls: c({"z": 1}, "top", m))]
        else:
            table[cls] = None   # unknown class: reported as uncovered
    return table


def value_of(e):
    try:
        v = e._get_value()
        return ("ok", v)
    except RecursionError:
        raise
    except Exception as ex:  # noqa
        return (type(ex).__name__, None)


def run_all(_chunk=None):
    import xdeps.refs as refs
    data, m, s, f = fresh_world()
    table = constructors(refs, s, f, m)
    classes = sorted(table, key=lambda c: c.__name__)
    ev = 0
    distinct = set()
    issues = []
    uncovered = [c.__name__ for c in classes if table[c] is None]
    abstract = [c.__name__ for c in classes if table[c] == "abstract"]
    slots_seen = set()
    samples = []
    perturbations = 0
    changed_count = 0

    def report(what, expr_s, detail=None):
        if len(issues) < 60:
            issues.append({"kind": "violation", "property": "C05", "finding": None, "what": what,
                           "program": [f"e = {expr_s}", "e._get_dependencies()"], "config": {},
                           "case": {"expr": expr_s, "what": what.split(":")[0]}, "detail": detail})

    for cls in classes:
        if not isinstance(table[cls], list):
            continue
        for slot, build in table[cls]:
            # fresh world per (class, slot) so perturbations do not accumulate across classes
            data, m, s, f = fresh_world()
            _L[0] = s["l"]
            tb = constructors(refs, s, f, m)[cls]
            build = dict(tb)[slot]
            f0 = base_fillers(s) + [("container", s)]
            fillers = list(f0)
            w1 = wrappers(refs, f)
            for (n0, x) in f0:
                for (n1, wfun) in w1:
                    fillers.append((f"{n1}({n0})", wfun(x)))
            for (n0, x) in f0[:3] + f0[-1:]:
                for (n1, wfun) in w1[:5]:
                    for (n2, wfun2) in w1[:6]:
                        fillers.append((f"{n2}({n1}({n0}))", wfun2(wfun(x))))
            for fname, filler in fillers:
                label = f"{cls.__name__}.{slot} <- {fname}"
                try:
                    e = build(filler)
                except Exception as ex:  # noqa
                    report(f"cannot construct: {label}: {type(ex).__name__}: {ex}", label)
                    continue
                ev += 1
                es = str(e)
                distinct.add((cls.__name__, slot, fname))
                # ---- exactness
                want = set()
                reachable(e, refs, want, slots_seen)
                try:
                    got = e._get_dependencies()
                except Exception as ex:  # noqa
                    report(f"_get_dependencies raised {type(ex).__name__}: {label}", es)
                    continue
                if not isinstance(got, set):
                    report(f"_get_dependencies returned {type(got).__name__}, not a set: {label}", es)
                    continue
                if got != want:
                    report(f"dependencies differ from the locations occurring in the expression: {label}", es,
                           {"missing": sorted(map(str, want - got)), "extra": sorted(map(str, got - want))})
                # every sub-expression OBJECT, queried on its own AFTER the enclosing expression was queried, reports its own
                # locations (a node must not remember what an earlier, differently nested query contributed), and the enclosing
                # expression answers the same when asked again
                nodes = []
                collect_nodes(e, refs, nodes)
                for sub in nodes[1:]:
                    want_s = set()
                    reachable(sub, refs, want_s, set())
                    try:
                        got_s = sub._get_dependencies()
                    except Exception as ex:  # noqa
                        report(f"_get_dependencies of a sub-expression raised {type(ex).__name__}: {label}", str(sub))
                        break
                    if got_s != want_s:
                        report(f"a sub-expression queried after its parent reports {sorted(map(str, got_s))}, it reads "
                               f"{sorted(map(str, want_s))}: {label}", str(sub))
                        break
                again = e._get_dependencies()
                if again != want:
                    report(f"a second query of the same expression answers differently: {label}", es,
                           {"first": sorted(map(str, got)), "second": sorted(map(str, again))})
                if len(samples) < 3 and fname.count("(") == 2:
                    samples.append({"case": label, "expr": es, "dependencies": sorted(map(str, got))})
                # ---- soundness by perturbation (only meaningful when the expression evaluates)
                v0 = value_of(e)
                if isinstance(e, refs.Ref) or "container" in fname:
                    # a top-level container is by design not a dependency (only exactness applies)
                    continue
                try:
                    m.set_value(s["out"], e)
                    defined = True
                except Exception:  # noqa
                    defined = False
                for lname, getref, newv in LEAVES:
                    loc = getref(s)
                    before = value_of(e)
                    old = loc._get_value()
                    try:
                        m.set_value(loc, newv)
                    except Exception as ex:  # noqa
                        # a dependant that cannot be evaluated (e.g. index out of range) may raise: restore and go on
                        try:
                            loc._set_value(old)
                        except Exception:  # noqa
                            pass
                        continue
                    perturbations += 1
                    after = value_of(e)
                    chg = before[0] != after[0] or (before[0] == "ok" and not T.same(before[1], after[1]))
                    if chg:
                        changed_count += 1
                        if got.isdisjoint(loc._get_dependencies()):
                            report(f"value changes with {lname} but {lname} is not a reported dependency: {label}", es,
                                   {"before": repr(before), "after": repr(after)})
                        if defined and after[0] == "ok" and not T.same(data["out"], after[1]):
                            report(f"a dependant defined by the expression was not recomputed when {lname} changed: {label}", es,
                                   {"dependant_holds": repr(data["out"]), "expression_gives": repr(after[1])})
                    try:
                        m.set_value(loc, old)
                    except Exception:  # noqa  (the dependant may be unevaluable at the old value)
                        loc._set_value(old)
                if defined:
                    m.unregister(s["out"])
                # a dependant whose TARGET shares a non-top-level owner with locations the expression reads: the registered task
                # must still carry every reported dependency (and is recomputed when the shared owner's member changes)
                try:
                    m.set_value(s["n"]["out"], e)
                    task = m.tasks[s["n"]["out"]]
                    if set(task.dependencies) != got:
                        report(f"the task defined by the expression registers dependencies {sorted(map(str, task.dependencies))}, "
                               f"the expression reports {sorted(map(str, got))}: {label}", es)
                    # ... and keeps carrying them whatever a CLONE of the manager does with its copy of the definition
                    c = m.clone()
                    c.unregister(s["n"]["out"])
                    if set(m.tasks[s["n"]["out"]].dependencies) != got or e._get_dependencies() != got:
                        report(f"after a clone of the manager dropped the definition, the original task registers "
                               f"{sorted(map(str, m.tasks[s['n']['out']].dependencies))}, the expression reports {sorted(map(str, got))}: {label}", es)
                    m.unregister(s["n"]["out"])
                    del data["n"]["out"]
                except Exception:  # noqa  (unevaluable expression: nothing to register)
                    data["n"].pop("out", None)
    return {"evaluations": ev, "distinct": len(distinct), "issues": issues, "uncovered_classes": uncovered,
            "abstract_classes": abstract, "classes_found": len(classes),
            "concrete_classes_covered": len([c for c in classes if isinstance(table[c], list)]),
            "slots_seen": sorted(f"{a}.{b}" for a, b in slots_seen), "samples": samples,
            "perturbations": perturbations, "perturbations_that_changed_the_value": changed_count}


def plan(tier, seed):
    return {"level": LEVEL,
            "jobs": [{"name": "enumerate", "mode": "compiled", "hashseed": seed % 2 ** 32, "nproc": 1, "timeout": 1800, "args": {}}],
            "assumptions": ["operand slots are the non-method, non-property underscore attributes of the class minus _value/_expr/_tasks/_hash/_manager",
                            "a class the constructor table cannot build is listed as uncovered, not reported as a violation"]}


def run_job(job):
    return run_all()


def finish(plan_, results):
    r = results[0]
    cov = {"evaluations": r["evaluations"], "distinct_nontrivial": r["distinct"], "exhaustive": True,
           "rule": "node class x operand slot x filler (ref directly, one and two levels below add/neg/call/builtin/computed-key nodes, "
                   "top-level container); distinct = distinct (class, slot, filler); each has a ref in the slot, hence non-trivial",
           "classes_found_by_introspection": r["classes_found"], "concrete_classes_covered": r["concrete_classes_covered"],
           "abstract_classes": r["abstract_classes"], "uncovered_classes": r["uncovered_classes"],
           "slots_seen": r["slots_seen"], "perturbations": r["perturbations"],
           "perturbations_that_changed_the_value": r["perturbations_that_changed_the_value"],
           "samples": r["samples"] or [{"note": "none"}]}
    return cov, r["issues"]


def replay(issue):
    r = run_all()
    bad = [i for i in r["issues"] if i["case"] == issue["case"]]
    return {"still_fails": bool(bad), "what": bad[0]["what"] if bad else "ok"}
