"""C18 — a failure in the middle of an update is reported and recoverable.

Fault enumeration on top of the history explorer: for every reached state
and every enabled assignment u the fault-free write trace W = w0..w(n-1) is
recorded, then for EVERY k < n the state is rebuilt and u is run over
containers that raise on exactly the k-th write (k = 0 is the write of the
assigned location itself).  Optionally a second faulty attempt at every k2
follows.  Finally the assignment is repeated without faults."""
import io
import contextlib

from .. import mgr
from .. import refmodel as RM
from .. import terms as T
from ..mgr import ManagerSystem, WORLDS
from ..world import InjectedFault, FAULT_CLASSES
from . import common
from .c03 import check_indices

LEVEL = "fault_enumeration"

CFG_FULL = {"values": (3, 5), "templates": ("mul2", "add"), "iops": (("add", ("lit", 1)),),
            "unreg": True, "setc": True, "funs": ("F1",), "knobs": ("K1",)}
CFG_MIX = {"values": (3,), "index_values": (1,), "templates": ("mul2", "total", "dyn", "dbl"),
           "setc": True, "funs": ("F1",), "knobs": ("K1",)}
CFG_REDUCED = {"values": (3,), "templates": ("mul2", "inc"), "unreg": True}
# a user function inside the expressions: its call is a fault point of the EVALUATION kind (raises a ZeroDivisionError subclass)
CFG_EVAL = {"values": (3,), "templates": ("mul2", "flaky"), "unreg": True}
CFG_KNOB3 = {"values": (3, 5), "templates": ("mul2",), "knobs": ("K3",)}
CFG_KNOB2 = {"values": (3,), "templates": ("mul2",), "knobs": ("K1", "K2")}
ALPHABETS = {"knob2": CFG_KNOB2, "full": CFG_FULL, "mix": CFG_MIX, "reduced": CFG_REDUCED, "eval": CFG_EVAL, "knob3": CFG_KNOB3}


def defs_of(m):
    return sorted((str(k), str(getattr(t, "expr", type(t).__name__))) for k, t in m.tasks.items())


class System(ManagerSystem):
    prop = "C18"
    double = False
    fault_classes = tuple(FAULT_CLASSES)

    def repeat_op(self, op, ns):
        """idempotent form of the assignment (an in-place operator is repeated
        as the definition / value it establishes)"""
        if op[0] != "iop":
            return op
        term = ns.expr_of(op[1])
        if term is not None:
            return ("def", op[1], term)
        return ("set", op[1], ns.get(op[1]))

    def consistent(self, w, hist, op, k, label):
        issues = []
        probs = check_indices(w.m, "")
        if probs:
            issues.append(self.issue("violation", hist, op, f"{label}: indices inconsistent with the definitions: {probs[0]}",
                                     {"fail_at_write": k}))
        try:
            with contextlib.redirect_stdout(io.StringIO()):
                w.m.verify()
        except Exception as e:  # noqa
            issues.append(self.issue("violation", hist, op, f"{label}: verify() raised {type(e).__name__}", {"fail_at_write": k}))
        return issues

    def one_fault(self, hist, op, k, cname, W, kinds, pre_defs, post_defs, st, issues):
        """the update `op` from the state `hist` with write/evaluation point #k failing with an exception of class `cname`;
        returns the world after the failure (None when the run is already a violation)"""
        w = self.replay(hist)
        w.trace.reset(fail_at=k, fail_cls=FAULT_CLASSES[cname])
        exc = None
        try:
            w.apply(op)
        except Exception as e:  # noqa
            exc = e
        st["fault_runs"] += 1
        if k >= 1:
            st["fault_on_dependant_write"] += 1
        info = {"fail_at_write": k, "fault_class": cname, "fault_free_trace": [(T.path_str(p), repr(v)) for p, v in W],
                "observed_trace": [(T.path_str(p), repr(v)) for p, v in w.trace.events]}
        if not isinstance(exc, InjectedFault):
            issues.append(self.issue("violation", hist, op,
                                     f"the failure ({cname}) of write #{k} did not reach the caller "
                                     f"({'no exception' if exc is None else type(exc).__name__})", info))
            return None
        nwrites = sum(1 for x in kinds[:k] if x == "w")
        if w.trace.events != W[:nwrites] or w.trace.count != k + 1:
            issues.append(self.issue("violation", hist, op,
                                     f"writes before the failing write #{k} ({cname}) are not the fault-free prefix, or something ran after it", info))
        d = defs_of(w.m)
        if d != pre_defs and d != post_defs:
            issues.append(self.issue("violation", hist, op, f"definitions after the failure at write #{k} are neither "
                                     "those before the update nor those it establishes", dict(info, definitions=d)))
        issues.extend(self.consistent(w, hist, op, k, f"after failure ({cname}) at write #{k}"))
        return w

    def fault_runs(self, hist, op, ms, ns, ex, W, n, pre_defs, post_defs, comparable, kinds=None):
        issues = []
        st = {"fault_runs": 0, "fault_on_dependant_write": 0, "double_fault_runs": 0, "repeats": 0, "second_updates": 0}
        rep = self.repeat_op(op, ns)
        kinds = kinds if kinds is not None else ["w"] * n

        def show(tr):
            return [(T.path_str(p), repr(v)) for p, v in tr]

        # second updates tried after a failed one: the same assignment, and (for a plain value) another value to the same location
        seconds = [rep]
        if self.double and op[0] == "set":
            seconds.append(("set", op[1], op[2] + 2))
        for k in range(n):
            finals = []
            for cname in (self.fault_classes if kinds[k] == "w" else ("plain",)):
                w = self.one_fault(hist, op, k, cname, W, kinds, pre_defs, post_defs, st, issues)
                if w is not None:
                    finals.append(((k, cname, None), w, rep, ns))
            if self.double:
                for r2 in seconds:
                    ns2 = ns if r2 == rep else RM.step(ns, r2)[0]
                    # what the second update does when nothing ever failed: the reference for the second update after a failure
                    wc = self.replay(hist)
                    wc.apply(op)
                    wc.trace.reset()
                    wc.apply(r2)
                    Wc, kc, nc = list(wc.trace.events), list(wc.trace.kinds), wc.trace.count
                    post2 = defs_of(wc.m)
                    st["second_updates"] += 1
                    for k2 in list(range(nc)) + [None]:
                        w2 = self.replay(hist)
                        w2.trace.reset(fail_at=k)
                        try:
                            w2.apply(op)
                        except Exception:  # noqa
                            pass
                        w2.trace.reset(fail_at=k2)
                        exc2 = None
                        try:
                            w2.apply(r2)
                        except Exception as e:  # noqa
                            exc2 = e
                        st["double_fault_runs"] += 1
                        info = {"fail_at_write": [k, k2], "second_update": repr(r2), "never_failed_trace": show(Wc),
                                "observed_trace": show(w2.trace.events)}
                        if k2 is None:
                            if exc2 is not None:
                                issues.append(self.issue("violation", hist, op, f"the fault-free repeat raised {type(exc2).__name__}: {exc2}", info))
                                continue
                            if comparable and show(w2.trace.events) != show(Wc):
                                issues.append(self.issue("violation", hist, op, "the update that follows a failed one does not run what the "
                                                         "same update runs when nothing failed (something left over from the failed update ran, "
                                                         "or a dependant was skipped)", info))
                            finals.append(((k, "plain", "done"), w2, None, ns2))
                            continue
                        if not isinstance(exc2, InjectedFault):
                            issues.append(self.issue("violation", hist, op, "the second failure did not reach the caller "
                                                     f"({'no exception' if exc2 is None else type(exc2).__name__ + ': ' + str(exc2)})", info))
                            continue
                        nw2 = sum(1 for x in kc[:k2] if x == "w")
                        if comparable and (show(w2.trace.events) != show(Wc[:nw2]) or w2.trace.count != k2 + 1):
                            issues.append(self.issue("violation", hist, op, f"second faulty update: writes before its failing write #{k2} are not "
                                                     "the prefix of what the update runs when nothing failed", info))
                        d = defs_of(w2.m)
                        if d not in (pre_defs, post_defs, post2):
                            issues.append(self.issue("violation", hist, op, "definitions after two failures are neither those before nor "
                                                     "those the updates establish", dict(info, definitions=d)))
                        issues.extend(self.consistent(w2, hist, op, [k, k2], f"after failures at writes #{k},#{k2}"))
                        finals.append(((k, "plain", k2), w2, r2, ns2))
            if not comparable:
                continue
            for (kk, cname, k2), wf, again, expect in finals:
                if again is not None:
                    wf.trace.reset()
                    try:
                        wf.apply(again)
                        st["repeats"] += 1
                    except Exception as e:  # noqa
                        issues.append(self.issue("violation", hist, op, f"the fault-free repeat raised {type(e).__name__}: {e}",
                                                 {"fail_at_write": [kk, k2], "fault_class": cname}))
                        continue
                obs = wf.contents()
                if not T.same(obs, expect.vals["s"]):
                    issues.append(self.issue("violation", hist, op,
                                             f"after failing at write #{kk} ({cname}){'' if k2 in (None, 'done') else ' and #%d' % k2} and repeating "
                                             "the assignment the dependants are not re-established",
                                             {"fail_at_write": [kk, k2], "repeated": repr(again), "diff": mgr.diff_contents(obs, expect.vals['s'])[:6]}))
            if len(issues) > 12:
                break
        return issues, st

    def expand(self, hist):
        ms = self.model_of(hist)
        children, issues = [], []
        stats = {"ops": {}, "verdicts": {}, "write_counts": {}}
        transitions = leaves = 0
        for opi in self.enabled_ops(hist, ms):
            op = self.universe[opi]
            w = self.replay(hist)
            pre_defs = defs_of(w.m)
            exc = None
            try:
                w.apply(op)
            except Exception as e:  # noqa
                exc = e
            transitions += 1
            ns, ex = RM.step(ms, op)
            v = mgr.judge(w, ms, op, ns, ex, exc)
            stats["ops"][op[0]] = stats["ops"].get(op[0], 0) + 1
            stats["verdicts"][v.kind] = stats["verdicts"].get(v.kind, 0) + 1
            if v.kind == "violation":
                issues.append(self.issue("violation", hist, op, "fault-free run: " + v.what,
                                         {"diff": mgr.diff_contents(w.contents(), ns.vals["s"])[:6]}))
                leaves += 1
                continue
            if ex.assigned is not None and exc is None:
                W = list(w.trace.events)
                n = w.trace.count
                kinds = list(w.trace.kinds)
                stats["write_counts"][n] = stats["write_counts"].get(n, 0) + 1
                try:
                    comparable = v.kind == "ok" and not mgr.order_underdetermined(ns, ex.trigger)
                    if not comparable:
                        stats["repeat_not_compared_order_underdetermined"] = stats.get("repeat_not_compared_order_underdetermined", 0) + 1
                    fi, st = self.fault_runs(hist, op, ms, ns, ex, W, n, pre_defs, defs_of(w.m), comparable, kinds)
                    st["evaluation_fault_points"] = sum(1 for x in kinds if x == "e")
                except Exception as e:  # noqa
                    import traceback
                    fi, st = [self.issue("violation", hist, op, f"{type(e).__name__} during fault enumeration: {e}",
                                         {"traceback": traceback.format_exc()[-1500:]})], {}
                issues.extend(fi)
                for kk, vv in st.items():
                    stats[kk] = stats.get(kk, 0) + vv
                transitions += st.get("fault_runs", 0) + st.get("double_fault_runs", 0)
            if v.kind == "known":
                stats["pruned_order_underdetermined"] = stats.get("pruned_order_underdetermined", 0) + 1
                leaves += 1
                continue
            children.append((mgr.canon(w), opi))
        if transitions == 0:
            leaves += 1
        return {"children": children, "transitions": transitions, "issues": issues, "stats": stats, "leaves": leaves}


class DoubleSystem(System):
    double = True


def plan(tier, seed):
    seeds = common.seeds_for(tier, seed, quick=(0,), thorough=(0, 1, 2))
    jobs = []
    if tier == "quick":
        runs = [("W-nest", "full", 2, False), ("W-nest-4", "reduced", 3, False), ("W-mix", "mix", 2, False),
                ("W-flat", "full", 2, True), ("W-nest-4", "eval", 3, False), ("W-flat", "eval", 2, True), ("W-knob3", "knob3", 3, True)]
    else:
        runs = [("W-nest", "full", 3, False), ("W-nest-4", "reduced", 4, False), ("W-mix", "mix", 3, False),
                ("W-flat", "full", 3, True), ("W-nest", "full", 2, True), ("W-nest-4", "eval", 4, False), ("W-flat", "eval", 3, True),
                ("W-knob3", "knob3", 4, True), ("W-knobs", "knob2", 3, True)]
    for hs in seeds:
        for wname, alpha, depth, double in runs:
            jobs.append({"name": f"faults:{wname}:{alpha}:d{depth}:{'double' if double else 'single'}:seed{hs}",
                         "mode": "compiled", "hashseed": hs, "nproc": 4 if tier == "quick" else 8, "timeout": 3000,
                         "args": {"world": wname, "alphabet": alpha, "depth": depth, "double": double, "time_cap": 1500}})
    return {"level": LEVEL, "jobs": jobs,
            "assumptions": [
                "'definitions unchanged' is accepted as: equal to the definitions before the update or to those the update establishes; indices must be consistent with whichever it is",
                "an in-place operator is repeated as the definition/value it establishes (the operator itself is not idempotent)",
                "faults are injected at container writes (the initial write and every task write, including each target of a multi-target task)",
                "updates whose fault-free outcome is under-determined by the recorded sibling-cycle finding are fault-injected for the error/prefix/consistency clauses but not compared after the repeat",
            ]}


def run_job(job):
    a = job["args"]
    cls = DoubleSystem if a["double"] else System
    return common.run_bfs(cls(WORLDS[a["world"]], ALPHABETS[a["alphabet"]], common.config_info(job)), job)


def finish(plan_, results):
    cov, issues = common.merge_bfs(results)
    st = cov["stats"]
    cov["evaluations"] = int(st.get("fault_runs", 0) + st.get("double_fault_runs", 0))
    cov["distinct_nontrivial"] = int(st.get("fault_on_dependant_write", 0))
    cov["rule"] = ("(state, assignment, k) for every reached state (merged on the full canonical digest), every enabled "
                   "assignment and every write position k of its fault-free trace; non-trivial = the failing write is a "
                   "dependant's write (k >= 1), each counted once per distinct state; double runs add a second failing attempt at every k2")
    cov["samples"] = [{"history": it["program"], "detail": it.get("detail"), "what": it["what"]} for it in issues[:3]] or \
        [{"example": "s['n']['x'] = (2 * s['a']); s['a'] = 5 with the write of s['n']['x'] failing (k=1): InjectedFault reaches the caller, "
                     "s['a'] == 5 is kept, repeat of s['a'] = 5 re-establishes s['n']['x'] == 10"}]
    cov["oracle"] = ("fault at write k: exception reaches caller; observed writes == fault-free prefix W[:k]; definitions pre or post; "
                     "indices derivable + verify(); after the fault-free repeat contents == reference model")
    return cov, issues


def replay(issue):
    import ast
    case = issue["case"]
    ops = [ast.literal_eval(s) for s in issue["ops"]]
    for cls in (DoubleSystem,):
        s = cls(WORLDS[case["world"]], {"extra": ops, "values": ()}, issue.get("config"))
        s.universe = ops
        hist = tuple(range(len(ops) - 1))
        r = s.expand(hist)
        bad = [i for i in r["issues"] if i["ops"][-1] == issue["ops"][-1] and i["kind"] == "violation"]
        if bad:
            return {"still_fails": True, "what": bad[0]["what"]}
    return {"still_fails": False, "what": "ok"}
