"""C18 — a failure in the middle of an update is reported and recoverable.

Fault enumeration on top of the history explorer: for every reached state
and every enabled assignment u the fault-free write trace W = w0..w(n-1) is
recorded, then for EVERY k < n the state is rebuilt and u is run over
containers that raise on exactly the k-th write (k = 0 is the write of the
assigned location itself).  Optionally a second faulty attempt at every k2
follows.  Finally the assignment is repeated without faults."""
import io
import contextlib

from .. import mgr
from .. import refmodel as RM
from .. import terms as T
from ..mgr import ManagerSystem, WORLDS
from ..world import InjectedFault
from . import common
from .c03 import check_indices

LEVEL = "fault_enumeration"

CFG_FULL = {"values": (3, 5), "templates": ("mul2", "add"), "iops": (("add", ("lit", 1)),),
            "unreg": True, "setc": True, "funs": ("F1",), "knobs": ("K1",)}
CFG_MIX = {"values": (3,), "index_values": (1,), "templates": ("mul2", "total", "dyn", "dbl"),
           "setc": True, "funs": ("F1",), "knobs": ("K1",)}
CFG_REDUCED = {"values": (3,), "templates": ("mul2", "inc"), "unreg": True}
# a user function inside the expressions: its call is a fault point of the EVALUATION kind (raises a ZeroDivisionError subclass)
CFG_EVAL = {"values": (3,), "templates": ("mul2", "flaky"), "unreg": True}
ALPHABETS = {"full": CFG_FULL, "mix": CFG_MIX, "reduced": CFG_REDUCED, "eval": CFG_EVAL}


def defs_of(m):
    return sorted((str(k), str(getattr(t, "expr", type(t).__name__))) for k, t in m.tasks.items())


class System(ManagerSystem):
    prop = "C18"
    double = False

    def repeat_op(self, op, ns):
        """idempotent form of the assignment (an in-place operator is repeated
        as the definition / value it establishes)"""
        if op[0] != "iop":
            return op
        term = ns.expr_of(op[1])
        if term is not None:
            return ("def", op[1], term)
        return ("set", op[1], ns.get(op[1]))

    def consistent(self, w, hist, op, k, label):
        issues = []
        probs = check_indices(w.m, "")
        if probs:
            issues.append(self.issue("violation", hist, op, f"{label}: indices inconsistent with the definitions: {probs[0]}",
                                     {"fail_at_write": k}))
        try:
            with contextlib.redirect_stdout(io.StringIO()):
                w.m.verify()
        except Exception as e:  # noqa
            issues.append(self.issue("violation", hist, op, f"{label}: verify() raised {type(e).__name__}", {"fail_at_write": k}))
        return issues

    def fault_runs(self, hist, op, ms, ns, ex, W, n, pre_defs, post_defs, comparable, kinds=None):
        issues = []
        st = {"fault_runs": 0, "fault_on_dependant_write": 0, "double_fault_runs": 0, "repeats": 0}
        rep = self.repeat_op(op, ns)
        for k in range(n):
            w = self.replay(hist)
            w.trace.reset(fail_at=k)
            exc = None
            try:
                w.apply(op)
            except Exception as e:  # noqa
                exc = e
            st["fault_runs"] += 1
            if k >= 1:
                st["fault_on_dependant_write"] += 1
            info = {"fail_at_write": k, "fault_free_trace": [(T.path_str(p), repr(v)) for p, v in W],
                    "observed_trace": [(T.path_str(p), repr(v)) for p, v in w.trace.events]}
            if not isinstance(exc, InjectedFault):
                issues.append(self.issue("violation", hist, op,
                                         f"the failure of write #{k} did not reach the caller "
                                         f"({'no exception' if exc is None else type(exc).__name__})", info))
                continue
            nwrites = k if kinds is None else sum(1 for x in kinds[:k] if x == "w")
            if w.trace.events != W[:nwrites]:
                issues.append(self.issue("violation", hist, op,
                                         f"writes before the failing write #{k} are not the fault-free prefix", info))
            d = defs_of(w.m)
            if d != pre_defs and d != post_defs:
                issues.append(self.issue("violation", hist, op, f"definitions after the failure at write #{k} are neither "
                                         "those before the update nor those it establishes", dict(info, definitions=d)))
            issues.extend(self.consistent(w, hist, op, k, f"after failure at write #{k}"))
            seconds = range(n) if self.double else ()
            finals = [(None, w)]
            for k2 in seconds:
                w2 = self.replay(hist)
                w2.trace.reset(fail_at=k)
                try:
                    w2.apply(op)
                except Exception:  # noqa
                    pass
                w2.trace.reset(fail_at=k2)
                exc2 = None
                try:
                    w2.apply(rep)
                except Exception as e:  # noqa
                    exc2 = e
                st["double_fault_runs"] += 1
                if exc2 is not None and not isinstance(exc2, InjectedFault):
                    issues.append(self.issue("violation", hist, op, f"second faulty attempt raised {type(exc2).__name__}: {exc2}",
                                             {"fail_at_write": [k, k2]}))
                    continue
                issues.extend(self.consistent(w2, hist, op, [k, k2], f"after failures at writes #{k},#{k2}"))
                finals.append((k2, w2))
            if not comparable:
                continue
            for k2, wf in finals:
                wf.trace.reset()
                try:
                    wf.apply(rep)
                    st["repeats"] += 1
                except Exception as e:  # noqa
                    issues.append(self.issue("violation", hist, op, f"the fault-free repeat raised {type(e).__name__}: {e}",
                                             {"fail_at_write": [k, k2]}))
                    continue
                obs = wf.contents()
                if not T.same(obs, ns.vals["s"]):
                    issues.append(self.issue("violation", hist, op,
                                             f"after failing at write #{k}{'' if k2 is None else ' and #%d' % k2} and repeating the assignment "
                                             "the dependants are not re-established",
                                             {"fail_at_write": [k, k2], "diff": mgr.diff_contents(obs, ns.vals['s'])[:6]}))
        return issues, st

    def expand(self, hist):
        ms = self.model_of(hist)
        children, issues = [], []
        stats = {"ops": {}, "verdicts": {}, "write_counts": {}}
        transitions = leaves = 0
        for opi in self.enabled_ops(hist, ms):
            op = self.universe[opi]
            w = self.replay(hist)
            pre_defs = defs_of(w.m)
            exc = None
            try:
                w.apply(op)
            except Exception as e:  # noqa
                exc = e
            transitions += 1
            ns, ex = RM.step(ms, op)
            v = mgr.judge(w, ms, op, ns, ex, exc)
            stats["ops"][op[0]] = stats["ops"].get(op[0], 0) + 1
            stats["verdicts"][v.kind] = stats["verdicts"].get(v.kind, 0) + 1
            if v.kind == "violation":
                issues.append(self.issue("violation", hist, op, "fault-free run: " + v.what,
                                         {"diff": mgr.diff_contents(w.contents(), ns.vals["s"])[:6]}))
                leaves += 1
                continue
            if ex.assigned is not None and exc is None:
                W = list(w.trace.events)
                n = w.trace.count
                kinds = list(w.trace.kinds)
                stats["write_counts"][n] = stats["write_counts"].get(n, 0) + 1
                try:
                    comparable = v.kind == "ok" and not mgr.order_underdetermined(ns, ex.trigger)
                    if not comparable:
                        stats["repeat_not_compared_order_underdetermined"] = stats.get("repeat_not_compared_order_underdetermined", 0) + 1
                    fi, st = self.fault_runs(hist, op, ms, ns, ex, W, n, pre_defs, defs_of(w.m), comparable, kinds)
                    st["evaluation_fault_points"] = sum(1 for x in kinds if x == "e")
                except Exception as e:  # noqa
                    import traceback
                    fi, st = [self.issue("violation", hist, op, f"{type(e).__name__} during fault enumeration: {e}",
                                         {"traceback": traceback.format_exc()[-1500:]})], {}
                issues.extend(fi)
                for kk, vv in st.items():
                    stats[kk] = stats.get(kk, 0) + vv
                transitions += st.get("fault_runs", 0) + st.get("double_fault_runs", 0)
            if v.kind == "known":
                stats["pruned_order_underdetermined"] = stats.get("pruned_order_underdetermined", 0) + 1
                leaves += 1
                continue
            children.append((mgr.canon(w), opi))
        if transitions == 0:
            leaves += 1
        return {"children": children, "transitions": transitions, "issues": issues, "stats": stats, "leaves": leaves}


class DoubleSystem(System):
    double = True


def plan(tier, seed):
    seeds = common.seeds_for(tier, seed, quick=(0,), thorough=(0, 1, 2))
    jobs = []
    if tier == "quick":
        runs = [("W-nest", "full", 2, False), ("W-nest-4", "reduced", 3, False), ("W-mix", "mix", 2, False),
                ("W-flat", "full", 2, True), ("W-nest-4", "eval", 3, False), ("W-flat", "eval", 2, True)]
    else:
        runs = [("W-nest", "full", 3, False), ("W-nest-4", "reduced", 4, False), ("W-mix", "mix", 3, False),
                ("W-flat", "full", 3, True), ("W-nest", "full", 2, True), ("W-nest-4", "eval", 4, False), ("W-flat", "eval", 3, True)]
    for hs in seeds:
        for wname, alpha, depth, double in runs:
            jobs.append({"name": f"faults:{wname}:{alpha}:d{depth}:{'double' if double else 'single'}:seed{hs}",
                         "mode": "compiled", "hashseed": hs, "nproc": 4 if tier == "quick" else 8, "timeout": 3000,
                         "args": {"world": wname, "alphabet": alpha, "depth": depth, "double": double, "time_cap": 1500}})
    return {"level": LEVEL, "jobs": jobs,
            "assumptions": [
                "'definitions unchanged' is accepted as: equal to the definitions before the update or to those the update establishes; indices must be consistent with whichever it is",
                "an in-place operator is repeated as the definition/value it establishes (the operator itself is not idempotent)",
                "faults are injected at container writes (the initial write and every task write, including each target of a multi-target task)",
                "updates whose fault-free outcome is under-determined by the recorded sibling-cycle finding are fault-injected for the error/prefix/consistency clauses but not compared after the repeat",
            ]}


def run_job(job):
    a = job["args"]
    cls = DoubleSystem if a["double"] else System
    return common.run_bfs(cls(WORLDS[a["world"]], ALPHABETS[a["alphabet"]], common.config_info(job)), job)


def finish(plan_, results):
    cov, issues = common.merge_bfs(results)
    st = cov["stats"]
    cov["evaluations"] = int(st.get("fault_runs", 0) + st.get("double_fault_runs", 0))
    cov["distinct_nontrivial"] = int(st.get("fault_on_dependant_write", 0))
    cov["rule"] = ("(state, assignment, k) for every reached state (merged on the full canonical digest), every enabled "
                   "assignment and every write position k of its fault-free trace; non-trivial = the failing write is a "
                   "dependant's write (k >= 1), each counted once per distinct state; double runs add a second failing attempt at every k2")
    cov["samples"] = [{"history": it["program"], "detail": it.get("detail"), "what": it["what"]} for it in issues[:3]] or \
        [{"example": "s['n']['x'] = (2 * s['a']); s['a'] = 5 with the write of s['n']['x'] failing (k=1): InjectedFault reaches the caller, "
                     "s['a'] == 5 is kept, repeat of s['a'] = 5 re-establishes s['n']['x'] == 10"}]
    cov["oracle"] = ("fault at write k: exception reaches caller; observed writes == fault-free prefix W[:k]; definitions pre or post; "
                     "indices derivable + verify(); after the fault-free repeat contents == reference model")
    return cov, issues


def replay(issue):
    import ast
    case = issue["case"]
    ops = [ast.literal_eval(s) for s in issue["ops"]]
    for cls in (DoubleSystem,):
        s = cls(WORLDS[case["world"]], {"extra": ops, "values": ()}, issue.get("config"))
        s.universe = ops
        hist = tuple(range(len(ops) - 1))
        r = s.expand(hist)
        bad = [i for i in r["issues"] if i["ops"][-1] == issue["ops"][-1] and i["kind"] == "violation"]
        if bad:
            return {"still_fails": True, "what": bad[0]["what"]}
    return {"still_fails": False, "what": "ok"}
