"""C08 — Table row selection follows the documented selector semantics, in
table order.  Exhaustive enumeration (engine E): ALL index columns over a
3-name alphabet up to length 5 (plus a fixed family of larger tables) x
every selector of a stated grammar, through rows[...], rows.indices[...] and
rows.mask[...], against a naive reference over the raw columns; ALL ordered
selector pairs of a core set for rows[s1, s2] == rows[s1].rows[s2]; the whole
enumeration is repeated under several hash seeds and the per-case result
digests must coincide."""
import hashlib
import itertools
import re

from .. import enumerate as E
from . import common
from .c07 import resolve, parse_row

LEVEL = "exploration"
NAMES = ("a", "b", "c")
UVALS = (3.0, 1.0, 2.0, 0.0, 4.0, 2.5, 1.5, 3.5, 0.5, 4.5, 2.0, 1.0)


class Undefined(Exception):
    """the naive reference does not define this case (offset landing outside, mask of the wrong length, ...)"""


NAN = float("nan")


def columns(names):
    n = len(names)
    # w: a column with missing values (nan) at every third position: a row whose value is nan lies in NO range
    return {"name": list(names), "s": [1.0 * i for i in range(n)], "u": list(UVALS[:n]),
            "w": [NAN if i % 3 == 1 else UVALS[i] for i in range(n)]}


def all_index_columns(maxlen):
    for n in range(maxlen + 1):
        for tup in itertools.product(NAMES, repeat=n):
            yield tup


LARGE = [tuple("abcabcab"), tuple("aaaabbbbcccc"), tuple("abacabadabac".replace("d", "c")), tuple("cbacbacba")]


def sel_key(sel):
    return repr(sel)


# ------------------------------------------------------------ reference
def rowpos(names, row):
    name, count, off = parse_row(row)
    p = resolve(names, name, count, off)
    if p is None:
        raise KeyError(row)
    if not (0 <= p < len(names)):
        raise Undefined("row designator lands outside")
    return p


def ref_select(cols, sel):
    names = cols["name"]
    n = len(names)
    allpos = list(range(n))
    if sel is None:
        return allpos
    if isinstance(sel, bool):
        raise Undefined("bool scalar")
    if isinstance(sel, int):
        if -n <= sel < n:
            return [sel % n]
        raise Undefined("position out of range")
    if isinstance(sel, slice):
        a, b, c = sel.start, sel.stop, sel.step
        if isinstance(a, str) or isinstance(b, str):
            if not (c is None or c == "name"):
                raise Undefined("span over another column")
            ia = rowpos(names, a) if a is not None else None
            ib = rowpos(names, b) + 1 if b is not None else None
            return allpos[ia:ib]
        if isinstance(c, str):
            col = cols[c]
            return [i for i in allpos if (a is None or col[i] >= a) and (b is None or col[i] <= b)]
        return allpos[sel]
    if isinstance(sel, str):
        name, count, off = parse_row(sel)
        rx = re.compile(name, re.IGNORECASE)
        matches = [i for i in allpos if rx.fullmatch(names[i])]
        if count is None:
            pos = matches
        else:
            pos = []
            for nm in dict.fromkeys(names[i] for i in matches):
                occ = [i for i in allpos if names[i] == nm]
                c = count + len(occ) if count < 0 else count
                if 0 <= c < len(occ):
                    pos.append(occ[c])
            pos.sort()
        pos = [p + off for p in pos]
        if any(not (0 <= p < n) for p in pos):
            raise Undefined("shift lands outside")
        return pos
    if isinstance(sel, list):
        if len(sel) == 0:
            return []
        if all(isinstance(x, bool) for x in sel):
            if len(sel) != n:
                raise Undefined("mask of the wrong length")
            return [i for i in allpos if sel[i]]
        if all(isinstance(x, int) for x in sel):
            if any(not (-n <= x < n) for x in sel):
                raise Undefined("position out of range")
            return [x % n for x in sel]
        if all(isinstance(x, str) for x in sel):
            return [rowpos(names, x) for x in sel]
    raise Undefined("selector form not in the grammar")


def sub(cols, pos):
    return {c: [v[p] for p in pos] for c, v in cols.items()}


# ------------------------------------------------------------ selectors
def single_selectors(n):
    sels = [None]
    sels += list(range(-n, n))
    for i in range(n):
        for j in range(n):
            sels.append([i, j])
    if n >= 3:
        sels += [[2, 1, 0], [0, 0, 2], [-1, 0]]
    sels.append([])
    for bits in itertools.product((False, True), repeat=n):
        if n:
            sels.append(list(bits))
    sels += [slice(None), slice(1, None), slice(None, 2), slice(None, None, 2), slice(None, None, -1), slice(1, 4, 3),
             slice(-2, None), slice(3, 1)]
    for rx in ("a", "A", "a|b", "[ab]", ".*", "zz", "b", "[^a]", "C"):
        sels.append(rx)
        for cnt in (0, 1, -1, 2, -2):
            sels.append(f"{rx}::{cnt}")
        for sh in ("<<1", ">>1", ">>2"):
            sels.append(rx + sh)
            sels.append(f"{rx}::0{sh}")
            sels.append(f"{rx}::-1{sh}")
    for a in (None, "a", "b", "c", "a::1", "b::-1", "c<<1"):
        for b in (None, "a", "b", "c", "a::1", "b::-1", "a>>1"):
            if a is None and b is None:
                continue
            sels.append(slice(a, b))
    sels += [slice("a", "c", "name"), slice("b", None, "name"), slice(None, "b", "name")]
    for colname in ("s", "u"):
        for lo in (None, 0.0, 1.0, 1.5, 2.5, 10.0):
            for hi in (None, 0.0, 1.0, 2.0, 2.5, 3.0, -1.0):
                sels.append(slice(lo, hi, colname))
    for lo in (None, 0.0, 2.0):
        for hi in (None, 2.5, 10.0):
            sels.append(slice(lo, hi, "w"))
    sels += [["a"], ["b", "a"], ["a", "a::1"], ["c::-1", "a"], ["zz"]]
    return sels


CORE = [None, 0, 1, -1, [1, 0], [0, 0], slice(1, None), slice(None, 2), slice(None, None, 2), slice(None, None, -1),
        "a", "A", "a|b", "[ab]", ".*", "zz", "a::0", "a::1", "a::-1", ".*::0", ".*::-1", "[ab]::1", "b>>1", "a<<1", ".*::0>>1",
        slice("a", "b"), slice("b", None), slice(None, "a"), slice("a::1", "c"), slice("c", "a"),
        slice(1.0, 3.0, "s"), slice(1.0, None, "s"), slice(None, 2.0, "s"), slice(None, None, "s"),
        slice(1.0, 3.0, "u"), slice(2.0, None, "u"), slice(None, 1.5, "u"), ["b", "a"], [], slice(0, 0),
        slice(0.0, None, "w"), slice(None, 10.0, "w")]


# ------------------------------------------------------------ real side
def mk_table(names):
    import numpy as np
    from xdeps import Table
    cols = columns(names)
    return Table({"name": np.array(cols["name"], dtype=object), "s": np.array(cols["s"], dtype=float),
                  "u": np.array(cols["u"], dtype=float), "w": np.array(cols["w"], dtype=float)})


def real_rows(t, sel):
    r = t.rows[sel]
    return {"name": [str(x) for x in r["name"]], "s": [float(x) for x in r["s"]], "u": [float(x) for x in r["u"]], "len": len(r)}


def issue(names, sel, what, config):
    return {"kind": "violation", "property": "C08", "finding": None, "what": what, "config": config,
            "program": [f"t = Table(name={list(names)!r}, s=0..n-1, u={list(UVALS[:len(names)])!r})", f"selector = {sel!r}"],
            "case": {"names": list(names), "sel": repr(sel)}}


def check_single(t, cols, names, sel, config, out):
    n = len(names)
    out["evaluations"] += 1
    try:
        exp = ref_select(cols, sel)
        exp_exc = None
    except Undefined:
        out["undefined"] += 1
        return None
    except KeyError:
        exp, exp_exc = None, "KeyError"
    what = None
    got_repr = None
    try:
        got = real_rows(t, sel)
        if exp_exc:
            what = f"rows[{sel!r}] returned {got['name']!r}; a name in the selector does not occur, KeyError expected"
        else:
            want = sub(cols, exp)
            if got["name"] != want["name"] or got["s"] != want["s"] or got["u"] != want["u"] or got["len"] != len(exp):
                what = (f"rows[{sel!r}] selects rows with s={got['s']!r}; the documented semantics select positions {exp!r}")
            got_repr = got["s"]
    except KeyError:
        if not exp_exc:
            what = f"rows[{sel!r}] raised KeyError; expected positions {exp!r}"
        got_repr = "KeyError"
    except Exception as e:  # noqa
        what = f"rows[{sel!r}] raised {type(e).__name__}: {e}; expected {'KeyError' if exp_exc else exp}"
    if what is None and not exp_exc:
        try:
            idx = t.rows.indices[sel]
            idx = [int(i) % n if n else int(i) for i in idx]
            if idx != exp:
                what = f"rows.indices[{sel!r}] = {idx!r}, rows[...] / the documented semantics give {exp!r}"
            msk = t.rows.mask[sel]
            mpos = [i for i, b in enumerate(msk) if b]
            if what is None and (len(msk) != n or mpos != sorted(set(exp))):
                what = f"rows.mask[{sel!r}] marks {mpos!r}, expected {sorted(set(exp))!r}"
        except Exception as e:  # noqa
            what = f"rows.indices/mask[{sel!r}] raised {type(e).__name__}: {e}"
    if what:
        if len(out["issues"]) < 40:
            out["issues"].append(issue(names, sel, what, config))
    if exp:
        out["nonempty"] += 1
    return got_repr


def check_pair(t, cols, names, s1, s2, config, out):
    out["evaluations"] += 1
    try:
        p1 = ref_select(cols, s1)
        c1 = sub(cols, p1)
        p2 = ref_select(c1, s2)
        exp = sub(c1, p2)
    except (Undefined, KeyError):
        out["undefined"] += 1
        return None
    what = None
    try:
        a = real_rows(t, (s1, s2))
        b_t = t.rows[s1].rows[s2]
        b = {"name": [str(x) for x in b_t["name"]], "s": [float(x) for x in b_t["s"]], "u": [float(x) for x in b_t["u"]], "len": len(b_t)}
        if a != b:
            what = f"rows[{s1!r}, {s2!r}] has s={a['s']!r} but rows[{s1!r}].rows[{s2!r}] has s={b['s']!r}"
        elif a["s"] != exp["s"] or a["name"] != exp["name"]:
            what = f"rows[{s1!r}, {s2!r}] has s={a['s']!r}; composing the documented semantics gives s={exp['s']!r}"
        else:
            n = len(names)
            idx = [int(i) % n if n else int(i) for i in t.rows.indices[s1, s2]]
            if [cols["s"][i] for i in idx] != exp["s"]:
                what = f"rows.indices[{s1!r}, {s2!r}] = {idx!r} does not describe the rows of rows[...] (s={exp['s']!r})"
            else:
                msk = t.rows.mask[s1, s2]
                marked = [cols["s"][i] for i, bit in enumerate(msk) if bit]
                if len(msk) != n or marked != sorted(set(exp["s"])):
                    what = f"rows.mask[{s1!r}, {s2!r}] marks the rows with s={marked!r}; rows[...] selects s={exp['s']!r}"
    except Exception as e:  # noqa
        what = f"rows[{s1!r}, {s2!r}] / rows[..].rows[..] / rows.mask[..] raised {type(e).__name__}: {e}; expected s={exp['s']!r}"
    if what and len(out["issues"]) < 40:
        out["issues"].append(issue(names, (s1, s2), what, config))
    if exp["s"]:
        out["nonempty"] += 1
    return exp["s"] if what is None else "BAD"


# names that differ only by case, and a name that as a regular expression also matches another one: selectors WITHOUT a
# count are plain case-insensitive full-match regular expressions on such tables too (count forms are left out here: for them
# the library deliberately tries the literal name first, see the assumptions)
NAMES2 = ("a", "A", "b", "a.c", "abc")
SELS2 = ["a", "A", "b", "B", "a.c", "abc", "A.C", "[ab]", "a|b", ".*", "a.*", "a>>1", "A<<1", "a.c>>1"]


def job_chunk2(chunk):
    out = {"evaluations": 0, "undefined": 0, "nonempty": 0, "issues": [], "tables": 0, "pairs": 0, "singles": 0}
    h = hashlib.sha256()
    for names in chunk:
        cols = columns(names)
        out["tables"] += 1
        for sel in SELS2:
            t = mk_table(names)
            r = check_single(t, cols, names, sel, _CFG, out)
            out["singles"] += 1
            h.update(repr((names, sel, r)).encode())
    out["digest_sum"] = int(h.hexdigest(), 16)
    out["distinct"] = set()
    return out


TRIPLE_CORE = [None, 1, [1, 0], slice(1, None), slice(None, None, 2), slice(None, None, -1), "a|b", ".*::0", "b>>1",
               slice("a", "b"), slice(1.0, None, "s"), slice(None, 2.0, "u")]


def job_triples(chunk):
    """rows[s1, s2, s3] == rows[s1].rows[s2].rows[s3] (the class documentation states the law for any number of selectors)"""
    out = {"evaluations": 0, "undefined": 0, "nonempty": 0, "issues": [], "tables": 0, "pairs": 0, "singles": 0, "triples": 0}
    h = hashlib.sha256()
    for names in chunk:
        cols = columns(names)
        n = len(names)
        for s1 in TRIPLE_CORE:
            for s2 in TRIPLE_CORE:
                for s3 in TRIPLE_CORE:
                    out["evaluations"] += 1
                    out["triples"] += 1
                    try:
                        c1 = sub(cols, ref_select(cols, s1))
                        c2 = sub(c1, ref_select(c1, s2))
                        exp = sub(c2, ref_select(c2, s3))
                    except (Undefined, KeyError):
                        out["undefined"] += 1
                        continue
                    what = None
                    try:
                        t = mk_table(names)
                        a = real_rows(t, (s1, s2, s3))
                        idx = [int(i) % n if n else int(i) for i in t.rows.indices[s1, s2, s3]]
                        if a["s"] != exp["s"] or a["name"] != exp["name"]:
                            what = f"rows[{s1!r}, {s2!r}, {s3!r}] has s={a['s']!r}; rows[..].rows[..].rows[..] semantics give s={exp['s']!r}"
                        elif [cols["s"][i] for i in idx] != exp["s"]:
                            what = f"rows.indices[{s1!r}, {s2!r}, {s3!r}] = {idx!r} does not describe the selected rows (s={exp['s']!r})"
                    except Exception as e:  # noqa
                        what = f"rows[{s1!r}, {s2!r}, {s3!r}] raised {type(e).__name__}: {e}; expected s={exp['s']!r}"
                    if what and len(out["issues"]) < 40:
                        out["issues"].append(issue(names, (s1, s2, s3), what, _CFG))
                    if exp["s"]:
                        out["nonempty"] += 1
                    h.update(repr((names, sel_key(s1), sel_key(s2), sel_key(s3), exp["s"] if what is None else "BAD")).encode())
    out["digest_sum"] = int(h.hexdigest(), 16)
    out["distinct"] = set()
    return out


SEQ_SELS = ["a", "a|b", ".*", "[^a]", ".*::0", ".*::1", "b::-1", "a>>1", slice("a", "b"), slice("b", None), slice(1.0, None, "u"),
            slice(None, 2.0, "u"), [True, False] * 3, 0, slice(None, None, -1)]
SEQ_MUTS = [("append", "a"), ("append", "b"), ("cell", 0, "b"), ("cell", -1, "a"), ("rot",), ("attr",), ("ucell", 0, 2.0), ("ucell", -1, 0.5),
            ("newcol",)]


def seq_mutate(t, cols, mut):
    import numpy as np
    n = len(cols["name"])
    k = mut[0]
    if k == "append":
        row = {"name": mut[1], "s": float(n), "u": 1.25, "w": 1.25}
        t._append_row(dict(row))
        for c in cols:
            cols[c].append(row[c])
    elif k == "cell":
        t["name", mut[1]] = mut[2]
        cols["name"][mut[1]] = mut[2]
    elif k == "rot":
        t["name"] = np.roll(t["name"], 1)
        cols["name"][:] = cols["name"][-1:] + cols["name"][:-1]
    elif k == "attr":
        t.name = np.array(cols["name"][::-1], dtype=object)
        cols["name"][:] = cols["name"][::-1]
    elif k == "ucell":
        t["u", mut[1]] = mut[2]
        cols["u"][mut[1]] = mut[2]
    elif k == "newcol":
        t["z"] = np.arange(n) * 2.0


def job_sequences(chunk):
    """ONE table object: a selection, a mutation made through the table API, then selections again (the same selector and
    every other one): each must describe the table as it is NOW"""
    out = {"evaluations": 0, "undefined": 0, "nonempty": 0, "issues": [], "tables": 0, "pairs": 0, "singles": 0, "sequences": 0}
    h = hashlib.sha256()
    for names in chunk:
        n = len(names)
        for s1 in SEQ_SELS:
            if isinstance(s1, list):
                s1 = s1[:n]
            for mut in SEQ_MUTS:
                if n == 0 and mut[0] in ("cell", "ucell", "rot", "attr"):
                    continue
                for s2 in SEQ_SELS:
                    cols = columns(names)
                    t = mk_table(names)
                    try:
                        t.rows[s1]
                        t.rows.indices[s1]
                    except Exception:  # noqa  (single selections are judged by the main enumeration)
                        pass
                    seq_mutate(t, cols, mut)
                    n2 = len(cols["name"])
                    if isinstance(s2, list):
                        s2 = s2[:n2]
                        if len(s2) != n2:
                            continue
                    out["sequences"] += 1
                    before = len(out["issues"])
                    r = check_single(t, cols, tuple(cols["name"]), s2, _CFG, out)
                    for it in out["issues"][before:]:
                        it["program"] = [f"t = Table(name={list(names)!r}, ...)", f"t.rows[{s1!r}]; t.rows.indices[{s1!r}]", f"mutation {mut!r}",
                                         f"selector = {s2!r}"]
                        it["case"] = {"names": list(names), "sel": repr(s2), "seq": [repr(s1), repr(mut)]}
                        it["what"] = "after an earlier selection and a mutation through the table API: " + it["what"]
                    h.update(repr((names, sel_key(s1), mut, sel_key(s2), r)).encode())
    out["digest_sum"] = int(h.hexdigest(), 16)
    out["distinct"] = set()
    return out


_CFG = {}


def job_chunk(chunk):
    """chunk: list of (names tuple, do_pairs)"""
    out = {"evaluations": 0, "undefined": 0, "nonempty": 0, "issues": [], "tables": 0, "pairs": 0, "singles": 0}
    h = hashlib.sha256()
    distinct = set()
    for names, do_pairs in chunk:
        cols = columns(names)
        out["tables"] += 1
        for sel in single_selectors(len(names)):
            t = mk_table(names)       # fresh table per case: selectors may build caches
            r = check_single(t, cols, names, sel, _CFG, out)
            out["singles"] += 1
            h.update(repr((names, sel_key(sel), r)).encode())
            if r not in (None, "KeyError"):
                distinct.add((names, tuple(r)))
        if do_pairs:
            for s1 in CORE:
                for s2 in CORE:
                    t = mk_table(names)
                    r = check_pair(t, cols, names, s1, s2, _CFG, out)
                    out["pairs"] += 1
                    h.update(repr((names, sel_key(s1), sel_key(s2), r)).encode())
    out["digest_sum"] = int(h.hexdigest(), 16)     # chunks are merged by addition: order independent
    out["distinct"] = {hash(x) for x in distinct} if False else {repr(x) for x in distinct}
    return out


def plan(tier, seed):
    seeds = common.seeds_for(tier, seed, quick=(0, 1, 2), thorough=tuple(range(8)))
    jobs = []
    for hs in seeds:
        jobs.append({"name": f"enum:seed{hs}", "mode": "pure", "hashseed": hs, "nproc": 5 if tier == "quick" else 4, "timeout": 3300,
                     "args": {"tier": tier}})
    return {"level": LEVEL, "jobs": jobs,
            "assumptions": ["main enumeration: names are distinct under case folding and contain no regex metacharacters or separator substrings; "
                            "a second enumeration uses names that differ only by case and a name that as a regex matches another one, with "
                            "selectors WITHOUT a count (for 'name::count' the library tries the literal name first, by design)",
                            "explicit position / name lists keep the order given (pinned by the existing suite); pattern, mask, span and "
                            "range selectors return ascending positions",
                            "shifts and positions are only judged when they land inside the table",
                            "indices are compared after normalising negative positions"]}


def run_job(job):
    tier = job["args"]["tier"]
    _CFG.update(common.config_info(job))
    pair_len = 4 if tier == "quick" else 5
    tables = [(nm, len(nm) <= pair_len) for nm in all_index_columns(5)]
    tables += [(nm, tier == "thorough") for nm in LARGE]
    chunks = E.chunked(tables, 6)
    r = E.pmap(job_chunk, chunks, job.get("nproc", 1))
    tabs2 = [nm for n in range(1, 5 if tier == "quick" else 6) for nm in itertools.product(NAMES2, repeat=n)]
    r2 = E.pmap(job_chunk2, E.chunked(tabs2, 40), job.get("nproc", 1))
    tabs3 = [nm for nm in all_index_columns(3 if tier == "quick" else 4)]
    r3 = E.pmap(job_triples, E.chunked(tabs3, 2), job.get("nproc", 1))
    tabs4 = [nm for nm in all_index_columns(3 if tier == "quick" else 4)]
    r4 = E.pmap(job_sequences, E.chunked(tabs4, 2), job.get("nproc", 1))
    for extra in (r2, r3, r4):
        for k, v in extra.items():
            if isinstance(v, (int, float)) and k != "wall_s":
                r[k] = r.get(k, 0) + v
        r["issues"] = r["issues"] + extra["issues"]
    r["triples"] = r3.get("triples", 0)
    r["sequences"] = r4.get("sequences", 0)
    r["case_variant_tables"] = len(tabs2)
    dsum = r.pop("digest_sum", 0)
    st = {k: v for k, v in r.items() if isinstance(v, (int, float))}
    st["distinct_results"] = len(r.get("distinct", ()))
    return {"stats": st, "issues": r["issues"],
            "digest": hashlib.sha256(str(dsum).encode()).hexdigest()[:24], "hashseed": job.get("hashseed")}


def finish(plan_, results):
    issues = []
    for r in results:
        issues.extend(r["issues"])
    digs = {r["hashseed"]: r["digest"] for r in results}
    if len(set(digs.values())) > 1:
        issues.append({"kind": "violation", "property": "C08", "finding": None, "config": {},
                       "what": f"selection results differ between hash seeds: {digs}",
                       "program": ["same tables and selectors under different PYTHONHASHSEED"], "case": {"digests": digs}})
    st = results[0]["stats"] if results else {}
    tot = sum(r["stats"]["evaluations"] for r in results)
    cov = {"evaluations": int(tot),
           "distinct_nontrivial": int(st.get("nonempty", 0)),
           "per_seed": {"tables": st.get("tables"), "single_selector_cases": st.get("singles"), "selector_pairs": st.get("pairs"),
                        "selector_triples": st.get("triples"), "select_mutate_select_sequences": st.get("sequences"), "tables_with_case_variant_or_regex_overlapping_names": st.get("case_variant_tables"),
                        "reference_undefined_skipped": st.get("undefined"), "distinct_result_lists": st.get("distinct_results")},
           "hash_seeds": sorted(digs), "result_digests_equal_across_seeds": len(set(digs.values())) <= 1,
           "exhaustive": True,
           "rule": "all index columns over {a,b,c} of length 0..5 (+4 fixed larger tables) x every selector of the grammar through rows/indices/mask; "
                   "all ordered pairs of the 40-selector core for the composition law; distinct_nontrivial = cases (per seed) whose expected "
                   "selection is non-empty",
           "samples": [{"names": ["a", "b", "a", "c"], "selector": "a::-1>>1", "expected_positions": [3]},
                       {"names": ["b", "a", "b"], "selector": "[ab]::1", "expected_positions": [2]},
                       {"names": ["a", "b", "c"], "selectors": ["slice(1.0, None, 's')", ".*::0"], "law": "rows[s1, s2] == rows[s1].rows[s2]"}]}
    return cov, issues


def replay(issue):
    import ast
    case = issue["case"]
    if "names" not in case:
        return {"still_fails": True, "what": "hash-seed digest mismatch: re-run the check"}
    names = tuple(case["names"])
    env = {"slice": slice}
    sel = eval(case["sel"], env)  # selectors are reprs of ints/lists/strings/slices produced by this module
    out = {"evaluations": 0, "undefined": 0, "nonempty": 0, "issues": []}
    cols = columns(names)
    t = mk_table(names)
    if case.get("seq"):
        r = job_sequences([names])
        bad = [i for i in r["issues"] if i["case"] == case]
        return {"still_fails": bool(bad), "what": bad[0]["what"] if bad else "ok"}
    if isinstance(sel, tuple) and len(sel) == 3:
        # re-run the triple job on this one table and look for the same selector triple
        r = job_triples([names])
        bad = [i for i in r["issues"] if i["case"]["sel"] == case["sel"]]
        return {"still_fails": bool(bad), "what": bad[0]["what"] if bad else "ok"}
    if isinstance(sel, tuple):
        check_pair(t, cols, names, sel[0], sel[1], {}, out)
    else:
        check_single(t, cols, names, sel, {}, out)
    return {"still_fails": bool(out["issues"]), "what": out["issues"][0]["what"] if out["issues"] else "ok"}
