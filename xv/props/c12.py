"""C12 — a pickled manager restores to an independent, behaviourally
identical copy.  Model checking: on every state reached by a history over an
alphabet that uses every expression node class, pickle.loads(pickle.dumps(m))
must succeed and yield a manager whose full concrete state (data,
definitions, the four indices with their order and counts) is identical;
then a chain of follow-up assignments is applied to the copy and to the
original alternately, checking agreement and independence at every step."""
import io
import contextlib
import pickle

from .. import mgr
from .. import refmodel as RM
from .. import terms as T
from ..mgr import ManagerSystem, WORLDS
from ..world import World
from . import common
from .c01 import replay_history
from .c03 import check_indices

LEVEL = "model_checking"

CFG_MIX = {
    "values": (3,), "index_values": (1,),
    "templates": ("mul2", "add", "neg", "abs", "round1", "floor", "pick", "total", "dyn", "lt", "eqx", "rpow", "pair1"),
    "iops": (("sub", ("lit", 1)),), "unreg": True, "setc": True, "genfun": True,
}
CFG_NEST = {"values": (3,), "templates": ("mul2", "add", "abs", "round1"), "iops": (("add", ("lit", 1)),), "unreg": True,
            "extra": [("freeze",), ("unfreeze",)], "genfun": True}     # a manager can be pickled while its tree is frozen
# builtins with ref parameters, keyword order, string arguments; load() leaves values that disagree with their definitions
CFG_PARAM = {"values": (3,), "templates": ("mul2", "roundr", "kw2", "unit", "litneg"), "unreg": True, "leaves_n": 4, "loads": 6}
# chains through sibling members of one nested container, one level deeper (the order of the index entries decides the update order there)
CFG_SIB = {"values": (3,), "templates": ("mul2", "inc"), "unreg": True}
ALPHABETS = {"mix": CFG_MIX, "nest": CFG_NEST, "param": CFG_PARAM, "sib": CFG_SIB}


def alphabet_for(world, name):
    from .c03 import _loads
    cfg = dict(ALPHABETS[name])
    if cfg.pop("genfun", False):
        # a setter function generated earlier (a query; whatever it leaves in the manager is pickled with it)
        cfg["extra"] = list(cfg.get("extra", [])) + [("genfun", (world["leaves"][0],))]
    n = cfg.pop("leaves_n", None)
    if n:
        # operands come from the first two locations, targets are the next ones: operands always hold plain ints, so
        # round(x, <ref>) and the string-keyed call are always evaluable
        cfg["sources"] = world["leaves"][:2]
        cfg["leaves"] = world["leaves"][2:n]
        cfg["values"] = ()
        cfg["extra_sets"] = [("set", L, v) for L in world["leaves"][:2] for v in (3, 2)]
    k = cfg.pop("loads", 0)
    extra = list(cfg.pop("extra_sets", [])) + list(cfg.get("extra", []))
    if k:
        src = cfg.get("sources") or world["leaves"]
        tgt = cfg.get("leaves") or world["leaves"]
        extra += [("load", ((L, mgr.tmpl("mul2", (X,))),), ow) for L in tgt[:2] for X in src[:2] for ow in (True, False)][:k]
    cfg["extra"] = extra
    return cfg


def state_obs(w):
    m = w.m
    idx = []
    for d in (m.rdeps, m.rtasks, m.deptasks, m.tartasks):
        idx.append(sorted((str(k), sorted((str(i), cnt) for i, cnt in v.items())) for k, v in d.items() if len(v)))
    tasks = [(str(k), type(t).__name__, str(getattr(t, "expr", None)), repr(getattr(t, "prev_value", None)), repr(getattr(t, "_applied", None)))
             for k, t in m.tasks.items()]
    return (tasks, idx, bool(m._tree_frozen))


class System(ManagerSystem):
    prop = "C12"

    def followups(self, ns):
        fk = mgr.task_regions(ns)
        out = []
        # first (while the definitions are still there): an in-place update of an expression-defined location - the restored
        # expression objects are combined into new ones and asked for their dependencies again
        for L in self.world["leaves"]:
            if ("E", L) in ns.tasks and not any(T.overlap(L, w) for w in fk):
                out.append(("iop", L, "mul", ("lit", 3)))
                break
        for L in self.world["leaves"]:
            if any(T.overlap(L, w) for w in fk):
                continue
            out.append(("set", L, 7))
        il = self.world.get("index_leaf")
        if il:
            out.append(("set", il, 1))
            out.append(("set", il, 0))
        out.append(("set", self.world["leaves"][0], 9))
        return out

    def mirror(self, w, c, ns, follow, hist, op, issues):
        ns_cur = ns
        for i, f in enumerate(follow):
            try:
                ns_next, ex_f = RM.step(ns_cur, f)
                underdet = bool(ex_f.assigned is not None and ex_f.trigger and mgr.order_underdetermined(ns_next, ex_f.trigger))
            except Exception:  # noqa
                ns_next, underdet, ex_f = ns_cur, False, None
            if ex_f is not None and ex_f.raises:
                # e.g. the manager was pickled while frozen: both sides must reject the follow-up in the same way
                got = []
                for side in (c, w):
                    try:
                        side.apply(f)
                        got.append(None)
                    except Exception as e:  # noqa
                        got.append(type(e).__name__)
                if got[0] != got[1] or got[0] != ex_f.raises.rstrip("?"):
                    issues.append(self.issue("violation", hist, op, f"follow-up {mgr.op_str(f)} must be rejected with {ex_f.raises}: the copy gave "
                                                                    f"{got[0]}, the original {got[1]}"))
                    break
                continue
            first, second = (c, w) if i % 2 == 0 else (w, c)
            before_second = second.contents()
            try:
                first.apply(f)
            except Exception as e:  # noqa
                issues.append(self.issue("violation", hist, op, f"follow-up {mgr.op_str(f)} raised {type(e).__name__} on "
                                         f"{'the copy' if first is c else 'the original'}: {e}"))
                break
            if not T.same(second.contents(), before_second):
                issues.append(self.issue("violation", hist, op, f"assigning {mgr.op_str(f)} on one manager changed the other's data"))
                break
            after_first = first.contents()
            try:
                second.apply(f)
            except Exception as e:  # noqa
                issues.append(self.issue("violation", hist, op, f"follow-up {mgr.op_str(f)} raised {type(e).__name__}: {e}"))
                break
            if not T.same(first.contents(), after_first):
                issues.append(self.issue("violation", hist, op, f"assigning {mgr.op_str(f)} on one manager changed the other's data"))
                break
            if not T.same(c.contents(), w.contents()):
                # (also where the recorded sibling-cycle finding leaves the update order open for the MODEL: whatever order the
                # original takes, a behaviourally identical copy takes the same one)
                issues.append(self.issue("violation", hist, op, f"original and copy disagree after follow-up {mgr.op_str(f)}",
                                         {"diff(copy vs original)": mgr.diff_contents(c.contents(), w.contents())[:6]}))
                break
            ns_cur = ns_next

    def state_checks(self, w, ns, hist, op):
        issues = []
        m = w.m
        try:
            blob = pickle.dumps(m)
            m2 = pickle.loads(blob)
        except BaseException as e:  # noqa  (RecursionError included)
            issues.append(self.issue("violation", hist, op, f"pickle round trip raised {type(e).__name__}: {str(e)[:120]}",
                                     {"definitions": m.dump()}))
            return issues
        for label, r in m.containers.items():
            r2 = m2.containers.get(label)
            if type(r2) is not type(r):
                issues.append(self.issue("violation", hist, op, f"container ref {label!r} is a {type(r).__name__} in the original and a "
                                                                f"{type(r2).__name__} in the copy"))
                return issues
        # the same pickle loaded a SECOND time: a third manager, independent of both
        try:
            c3 = World.from_manager(self.world, pickle.loads(blob))
        except BaseException as e:  # noqa
            issues.append(self.issue("violation", hist, op, f"loading the same pickle a second time raised {type(e).__name__}: {str(e)[:120]}"))
            return issues
        c = World.from_manager(self.world, m2)
        if c.data is w.data:
            issues.append(self.issue("violation", hist, op, "the copy shares its container with the original"))
            return issues
        if m2.dump() != m.dump():
            issues.append(self.issue("violation", hist, op, "the copy's definitions differ", {"orig": m.dump(), "copy": m2.dump()}))
        # data, the ordered list of definitions, and the four indices as multisets (keys and counts).  The insertion order of the
        # indices is deliberately not compared: a manager that rebuilds its indices when unpickled is still a faithful copy.
        if not T.same(c.contents(), w.contents()) or state_obs(c) != state_obs(w):
            issues.append(self.issue("violation", hist, op, "the copy's concrete state (data / tasks / indices) differs from the original",
                                     {"orig": mgr.index_dump(m), "copy": mgr.index_dump(m2),
                                      "contents": repr(w.contents()), "copy_contents": repr(c.contents())}))
        for r in list(m2.tasks)[:3]:
            if getattr(r, "_manager", m2) is not m2:
                issues.append(self.issue("violation", hist, op, "a ref of the copy still points at the original manager"))
                break
        probs = check_indices(m2, "copy.")
        if probs:
            issues.append(self.issue("violation", hist, op, "copy: " + probs[0]))
        # the second copy gets an assignment of its own first (a value the others never see): it must react as the model says, and
        # neither the first copy nor the original may notice
        if c3.data is c.data or c3.data is w.data:
            issues.append(self.issue("violation", hist, op, "the second copy shares its container with the first copy / the original"))
            return issues
        if not any(t[0] != "E" for t in ns.tasks) and True:
            fk_ = mgr.task_regions(ns)
            for L in self.world["leaves"]:
                if ("E", L) in ns.tasks or any(T.overlap(L, x) for x in fk_):
                    continue
                f3 = ("set", L, 11)
                ns3, ex3 = RM.step(ns, f3)
                if ex3.raises:
                    continue
                snap_c, snap_w = c.contents(), w.contents()
                exc = None
                c3.trace.reset()
                try:
                    c3.apply(f3)
                except Exception as e:  # noqa
                    exc = e
                v = mgr.judge(c3, ns, f3, ns3, ex3, exc)
                if v.kind == "violation":
                    issues.append(self.issue("violation", hist, op, f"a second copy loaded from the same pickle reacts wrongly to {mgr.op_str(f3)}: {v.what}",
                                             {"diff(second copy vs model)": mgr.diff_contents(c3.contents(), ns3.vals["s"])[:6]}))
                    return issues
                if not T.same(c.contents(), snap_c) or not T.same(w.contents(), snap_w):
                    issues.append(self.issue("violation", hist, op, f"assigning {mgr.op_str(f3)} on the second copy changed the first copy / the original"))
                    return issues
                break
        # mirrored follow-ups, alternating which side goes first: once starting with an in-place update of a definition, once
        # (on a fresh replica of the state and a fresh copy of it) with plain assignments only, so that the restored indices
        # are used as they came out of the pickle
        fl = self.followups(ns)
        self.mirror(w, c, ns, fl, hist, op, issues)
        if not issues and fl and fl[0][0] == "iop":
            w_b = self.replay(tuple(hist) + (self.universe.index(op),))
            try:
                c_b = World.from_manager(self.world, pickle.loads(pickle.dumps(w_b.m)))
            except BaseException as e:  # noqa
                issues.append(self.issue("violation", hist, op, f"pickle round trip raised {type(e).__name__}: {str(e)[:120]}"))
                return issues
            self.mirror(w_b, c_b, ns, fl[1:], hist, op, issues)
        try:
            with contextlib.redirect_stdout(io.StringIO()):
                m2.verify()
        except Exception as e:  # noqa
            issues.append(self.issue("violation", hist, op, f"copy.verify() raised {type(e).__name__}"))
        return issues


# ---------------------------------------------------------------- a pickle is read by ANOTHER interpreter
def _xproc_build():
    import xdeps
    m = xdeps.Manager()
    data = {"a": 1, "b": 0, "c": 0, "n": {"x": 0, "y": 0}, "l": [0, 0]}
    s = m.ref(data, "s")
    s["b"] = s["a"] * 2
    s["n"]["x"] = s["a"] + s["b"]
    s["l"][1] = abs(s["n"]["x"]) - s["c"]
    s["n"]["y"] = round(s["l"][1] / 4, 1)
    return m, data


def xproc_child(path):
    """runs in another interpreter under another hash seed: the restored manager must behave like the original"""
    import io
    import contextlib
    import sys
    with open(path, "rb") as fh:
        m2 = pickle.load(fh)
    m, data = _xproc_build()
    bad = []
    d2 = m2.containers["s"]._owner
    steps = [("a", 7), ("c", 2), ("a", -3), ("b", 1), ("a", 9), ("c", 0)]
    for key, val in steps:
        m.containers["s"][key] = val
        try:
            m2.containers["s"][key] = val
        except Exception as e:  # noqa
            bad.append(f"s[{key!r}] = {val} raised {type(e).__name__}: {e}")
            break
        if d2 != data:
            bad.append(f"after s[{key!r}] = {val}: restored manager holds {d2!r}, a manager built here holds {data!r}")
            break
        if m2.dump() != m.dump():
            bad.append(f"after s[{key!r}] = {val}: definitions {m2.dump()!r} vs {m.dump()!r}")
            break
    if not bad:
        try:
            with contextlib.redirect_stdout(io.StringIO()):
                m2.verify()
        except Exception as e:  # noqa
            bad.append(f"verify() raised {type(e).__name__}: {e}")
    print("XPROC " + ("OK" if not bad else "BAD " + bad[0]))
    sys.exit(0)


def job_xproc(job):
    import os
    import shutil
    import subprocess
    import sys
    import tempfile
    m, data = _xproc_build()
    issues = []
    # the manager's DEFAULT container (Manager.ref() without data), used attribute-style: copy and original stay in step
    import xdeps
    for style in ("attr", "item", "newenv"):
        m0 = xdeps.Manager()
        # 'newenv': the container is attached with Manager.newenv(label, data) and used through the environment's ref
        v = m0.ref(label="v") if style != "newenv" else m0.newenv("v", {})._
        if style == "attr":
            v.a = 1
            v.b = v.a * 2
            v.c = v.a + v.b
        else:
            v["a"] = 1
            v["b"] = v["a"] * 2
            v["c"] = v["a"] + v["b"]
        try:
            mc = pickle.loads(pickle.dumps(m0))
            w = mc.containers["v"]
            for val in (10, -4):
                if style == "attr":
                    w.a = val
                    v.a = val
                else:
                    w["a"] = val
                    v["a"] = val
                got, want = dict(w._owner), dict(v._owner)
                if got != want or want != {"a": val, "b": 2 * val, "c": 3 * val}:
                    raise AssertionError(f"after a = {val} the copy's container holds {got!r}, the original's {want!r}")
        except Exception as e:  # noqa
            issues.append({"kind": "violation", "property": "C12", "finding": None, "config": common.config_info(job),
                           "what": f"manager over its default container ({style}-style access), pickled and restored: {type(e).__name__}: {e}",
                           "program": ["m = Manager(); v = m.ref(label='v'); a = 1; b = a*2; c = a+b", "copy = pickle.loads(pickle.dumps(m))",
                                       "a = 10 on both"], "ops": [], "case": {"xproc": "default-container"}})
    d = tempfile.mkdtemp(prefix="c12x-", dir=os.environ.get("XV_SCRATCH_DIR", "/var/tmp"))
    fn = os.path.join(d, "manager.pkl")
    n = 0
    try:
        with open(fn, "wb") as fh:
            pickle.dump(m, fh)
        mine = int(os.environ.get("PYTHONHASHSEED", "0") or 0)
        for other in (mine, mine + 1, mine + 101, mine + 7):
            env = dict(os.environ)
            env["PYTHONHASHSEED"] = str(other)
            p = subprocess.run([sys.executable, "-c", f"from xv.props import c12; c12.xproc_child({fn!r})"],
                               env=env, capture_output=True, text=True, cwd=os.getcwd())
            n += 1
            line = next((l for l in p.stdout.splitlines() if l.startswith("XPROC")), None)
            if line != "XPROC OK":
                issues.append({"kind": "violation", "property": "C12", "finding": None, "config": common.config_info(job),
                               "what": f"a manager pickled under hash seed {mine} and restored in another interpreter under hash seed {other}: "
                                       f"{line or ('child failed: ' + p.stderr[-300:])}",
                               "program": ["pickle.dump(manager) in one interpreter", f"pickle.load in another (PYTHONHASHSEED={other}); six assignments "
                                           "mirrored on a manager built there"],
                               "ops": [], "case": {"xproc": other}})
    finally:
        shutil.rmtree(d, ignore_errors=True)
    return {"kind": "xproc", "issues": issues, "interpreters": n}


def plan(tier, seed):
    seeds = common.seeds_for(tier, seed, quick=(0,), thorough=(0, 1, 2))
    jobs = [{"name": "another-interpreter", "mode": "compiled", "hashseed": seeds[0], "nproc": 1, "timeout": 600, "args": {"kind": "xproc"}}]
    runs = [("W-mix", "mix", 2), ("W-nest", "nest", 2), ("W-mix-attr", "nest", 2), ("W-flat", "param", 2), ("W-nest-4", "sib", 4)] if tier == "quick" else \
        [("W-nest-4", "sib", 5), ("W-mix", "mix", 2), ("W-nest", "nest", 2), ("W-mix-attr", "mix", 2), ("W-mix-attr", "nest", 2), ("W-flat", "param", 3),
         ("W-nest-4", "param", 3), ("W-nest-4", "nest", 3)]
    for hs in seeds:
        for wname, alpha, depth in runs:
            jobs.append({"name": f"bfs:{wname}:{alpha}:d{depth}:seed{hs}", "mode": "compiled", "hashseed": hs,
                         "nproc": 8, "timeout": 3000,
                         "args": {"world": wname, "alphabet": alpha, "depth": depth, "time_cap": 1500}})
    return {"level": LEVEL, "jobs": jobs,
            "assumptions": ["containers are the harness's picklable logging dict/list/object containers and a picklable function container",
                            "behavioural identity is established by identity of the full concrete state plus a mirrored chain of follow-up assignments"]}


def run_job(job):
    a = job["args"]
    if a.get("kind") == "xproc":
        return job_xproc(job)
    return common.run_bfs(System(WORLDS[a["world"]], alphabet_for(WORLDS[a["world"]], a["alphabet"]), common.config_info(job)), job)


def finish(plan_, results):
    xp = [r for r in results if r.get("kind") == "xproc"]
    cov, issues = common.merge_bfs([r for r in results if r.get("kind") != "xproc"])
    for r in xp:
        issues.extend(r["issues"])
        cov["pickles_restored_in_another_interpreter"] = r["interpreters"]
    cov["samples"] = [{"history": it["program"], "what": it["what"]} for it in issues[:3]] or \
        [{"note": "no issue found", "node_classes_in_alphabet": list(CFG_MIX["templates"])}]
    cov["oracle"] = ("pickle round trip succeeds; copy's dump/tasks/indices/data identical (full canonical digest); "
                     "mirrored follow-up chain agrees step by step; neither side's assignment changes the other")
    return cov, issues


def replay(issue):
    if "xproc" in issue.get("case", {}):
        r = job_xproc({"name": "replay", "hashseed": (issue.get("config") or {}).get("hashseed", 0)})
        return {"still_fails": bool(r["issues"]), "what": r["issues"][0]["what"] if r["issues"] else "ok"}
    return replay_history(System, issue)
