"""C16 — Newton step is the least-squares solution; scalings and Jacobians
consistent.  Exhaustive enumeration (engine E) of finite families:

 (a) SVD.lstsq on A = U diag(s) V^T for EVERY shape 1..6 x 1..6 with exact
     orthogonal factors (signed permutations, Givens products with 0.6/0.8),
     singular-value patterns (full, rank-deficient, graded, scaled 1e+-6,
     repeated), right-hand sides in and out of range, rcond / sing_val_cutoff
     settings; plus ALL 2x2 and 2x3 matrices with entries in {-1,0,1,2}.
     Oracle = characterisation of the truncated minimum-norm least-squares
     solution: x lies in the kept row space and the residual is orthogonal
     to the kept column space (Moore-Penrose on the truncated system);
     numpy.linalg.pinv as a cross-check.
 (b) consistent linear problems with condition <= 100 inside wide limits:
     the first Jacobian step lands on a solution, solve() succeeds with
     Broyden off / on / every 2.
 (c) weights and rescale_x mappings are mutually inverse on a lattice.
 (d) merit-function views: reported Jacobian vs closed form vs central
     differences of the same view, every return_scalar x rescale_x."""
import itertools
import math

from .. import enumerate as E
from .. import optsys as O
from . import common

LEVEL = "exploration"


# ---------------------------------------------------------------- (a) matrices
def orth_factors(n):
    """a few exact orthogonal n x n matrices"""
    import numpy as np
    out = [np.eye(n)]
    if n >= 2:
        P = np.zeros((n, n))
        for i in range(n):
            P[i, (i + 1) % n] = -1.0 if i % 2 else 1.0     # signed cyclic permutation
        out.append(P)
        G = np.eye(n)
        G[0, 0], G[0, 1], G[1, 0], G[1, 1] = 0.6, -0.8, 0.8, 0.6
        out.append(G)
        if n >= 3:
            G2 = np.eye(n)
            G2[n - 2, n - 2], G2[n - 2, n - 1], G2[n - 1, n - 2], G2[n - 1, n - 1] = 0.8, 0.6, -0.6, 0.8
            out.append(G @ P @ G2)
    return out


def sv_patterns(k):
    pats = {"full": [float(k - i) for i in range(k)],
            "graded": [10.0 ** (-2 * i) for i in range(k)],
            "big": [1e6 * (k - i) for i in range(k)],
            "small": [1e-6 * (k - i) for i in range(k)],
            # well conditioned, but tiny / huge in ABSOLUTE terms (a problem expressed in other units): rcond is relative
            "tiny": [1e-17 * (k - i) for i in range(k)],
            "huge": [1e17 * (k - i) for i in range(k)]}
    if k >= 2:
        pats["rankdef"] = [float(k - i) for i in range(k - 1)] + [0.0]
        pats["repeated"] = [2.0] * (k - 1) + [0.5]
    if k >= 3:
        pats["rank1"] = [3.0] + [0.0] * (k - 1)
    return pats


def lstsq_cases(tier):
    import numpy as np
    for m in range(1, 7):
        for n in range(1, 7):
            k = min(m, n)
            Us, Vs = orth_factors(m), orth_factors(n)
            pairs = list(itertools.product(Us, Vs))
            for (U, V) in pairs:
                for pname, s in sv_patterns(k).items():
                    settings = [(None, None), (1e-14, None), (0.3, None), (None, 1)]
                    if k >= 3:
                        settings.append((None, k - 1))
                    for rcond, cutoff in settings:
                        yield (m, n, U, V, pname, s, rcond, cutoff)


def kept_indices(s, rcond, cutoff):
    """which singular values the documented truncation keeps; None if a value sits too close to a threshold to decide"""
    k = len(s) if cutoff is None else min(cutoff, len(s))
    rc = 1e-14 if rcond is None else rcond
    keep = []
    for i in range(k):
        if s[i] == 0.0:
            if rc < 1e-15:
                # an exactly singular matrix has COMPUTED singular values of the order of the rounding unit: whether a threshold
                # below that keeps them is not decidable
                return None
            continue
        thr = rc * s[0]
        if 0.5 * thr < s[i] < 2.0 * thr:
            return None
        if s[i] >= thr:
            keep.append(i)
    # a cut-off that splits a block of equal singular values leaves the kept subspace undetermined
    if k < len(s) and k >= 1 and s[k - 1] == s[k] and s[k] != 0.0:
        return None
    return keep


def check_lstsq_case(case, out):
    import numpy as np
    from xdeps.optimize.matrixutils import SVD
    m, n, U, V, pname, s, rcond, cutoff = case
    k = min(m, n)
    S = np.zeros((m, n))
    for i in range(k):
        S[i, i] = s[i]
    A = U @ S @ V.T
    keep = kept_indices(s, rcond, cutoff)
    if keep is None:
        out["undecidable"] += 1
        return
    Uk = U[:, keep]
    Vk = V[:, keep]
    x0 = np.array([(-1.0) ** j * (1.0 + 0.5 * j) for j in range(n)])
    rhss = [A @ x0, np.array([1.0 + 0.25 * i * (-1) ** i for i in range(m)]), np.eye(m)[:, m - 1] * max(s[0], 1e-300)]
    xs = []
    for ib, b in enumerate(rhss):
        out["evaluations"] += 1
        kwargs = {}
        svd = SVD(A) if rcond is None else SVD(A, rcond=rcond)
        if cutoff is not None:
            kwargs["sing_val_cutoff"] = cutoff
        x = svd.lstsq(b, **kwargs)
        what = None
        if x.shape != (n,) or not np.all(np.isfinite(x)):
            what = f"lstsq returned shape {x.shape} / non-finite values"
        else:
            nA = s[0] if s[0] > 0 else 1.0
            scale = np.linalg.norm(b) + nA * np.linalg.norm(x) + 1e-300
            off_row = np.linalg.norm(x - Vk @ (Vk.T @ x))
            r = b - A @ x
            off_col = np.linalg.norm(Uk.T @ r)
            smin = min([s[i] for i in keep], default=nA)
            tol_row = 1e-9 * (np.linalg.norm(x) + np.linalg.norm(b) / smin)
            tol_col = 1e-9 * scale * (nA / smin)
            if off_row > tol_row:
                what = f"solution is not in the row space of the kept singular vectors (component outside: {off_row:.3e})"
            elif off_col > tol_col:
                what = f"residual is not orthogonal to the kept column space (|U_k^T r| = {off_col:.3e}): not the least-squares solution"
            elif cutoff is None:
                rc = 1e-14 if rcond is None else rcond
                ref = np.linalg.pinv(A, rcond=rc) @ b
                if np.linalg.norm(ref - x) > 1e-8 * (np.linalg.norm(ref) + np.linalg.norm(b) / smin + 1e-300) * (nA / smin):
                    what = f"differs from numpy.linalg.pinv(A, rcond={rc}) @ b: {x!r} vs {ref!r}"
        if what is None:
            xs.append(x)
        if len(keep) and len(keep) < k:
            out["truncated"] += 1
        out["distinct"].add((m, n, pname, rcond, cutoff, ib))
        if what and len(out["issues"]) < 20:
            out["issues"].append({"kind": "violation", "property": "C16", "finding": None, "what": "SVD.lstsq: " + what, "config": {},
                                  "program": [f"A = U diag({s}) V^T, shape {m}x{n} ({pname})", f"rcond={rcond}, sing_val_cutoff={cutoff}",
                                              f"b = rhs #{ib}"], "case": {"kind": "lstsq", "id": [m, n, pname, rcond, cutoff, ib]}})


def check_lstsq_blocks(case, out):
    """several right-hand sides given as ONE (m, k) block: column j of the answer is the answer for column j (k = 1, 3, and the
    number of singular values kept, which is where a per-column scaling is easiest to confuse with a per-row one)"""
    import numpy as np
    from xdeps.optimize.matrixutils import SVD
    m, n, U, V, pname, s, rcond, cutoff = case
    k = min(m, n)
    S = np.zeros((m, n))
    for i in range(k):
        S[i, i] = s[i]
    A = U @ S @ V.T
    keep = kept_indices(s, rcond, cutoff)
    if keep is None:
        return
    x0 = np.array([(-1.0) ** j * (1.0 + 0.5 * j) for j in range(n)])
    rhss = [A @ x0, np.array([1.0 + 0.25 * i * (-1) ** i for i in range(m)]), np.eye(m)[:, m - 1] * max(s[0], 1e-300)]
    svd = SVD(A) if rcond is None else SVD(A, rcond=rcond)
    kwargs = {} if cutoff is None else {"sing_val_cutoff": cutoff}
    cols = [svd.lstsq(b, **kwargs) for b in rhss]
    for width in sorted({1, 3, max(1, len(keep))}):
        out["evaluations"] += 1
        B = np.column_stack([rhss[j % 3] for j in range(width)])
        want = np.column_stack([cols[j % 3] for j in range(width)])
        what = None
        try:
            got = svd.lstsq(B, **kwargs)
            if np.shape(got) != want.shape:
                what = f"a block of {width} right-hand sides (shape {B.shape}) gives shape {np.shape(got)}, expected {want.shape}"
            elif not np.allclose(got, want, rtol=1e-10, atol=1e-10 * (np.abs(want).max() if want.size else 0.0) + 1e-300):
                what = f"a block of {width} right-hand sides does not give, column by column, the answers for the single right-hand sides"
        except Exception as e:  # noqa
            what = f"a block of {width} right-hand sides (shape {B.shape}) raises {type(e).__name__}: {e}"
        if what and len(out["issues"]) < 20:
            out["issues"].append({"kind": "violation", "property": "C16", "finding": None, "what": "SVD.lstsq: " + what, "config": {},
                                  "program": [f"A = U diag({s}) V^T, shape {m}x{n} ({pname})", f"rcond={rcond}, sing_val_cutoff={cutoff}",
                                              f"B = {width} right-hand sides as columns"], "case": {"kind": "lstsq", "id": [m, n, pname, rcond, cutoff, 0]}})
            return


def reuse_cases():
    import numpy as np
    for m, n in ((3, 3), (4, 2), (2, 5), (5, 4), (6, 6)):
        k = min(m, n)
        U, V = orth_factors(m)[-1], orth_factors(n)[-1]
        for pname, s in sv_patterns(k).items():
            yield (m, n, U, V, pname, s)


def check_reuse_case(case, out):
    """ONE SVD object, lstsq called with a sequence of per-call settings: every answer must be the truncated solution for the
    settings of THAT call (no state carried over between calls)"""
    import numpy as np
    from xdeps.optimize.matrixutils import SVD
    m, n, U, V, pname, s = case
    k = min(m, n)
    S = np.zeros((m, n))
    for i in range(k):
        S[i, i] = s[i]
    A = U @ S @ V.T
    b = np.array([1.0 + 0.25 * i * (-1) ** i for i in range(m)])
    # settings given per call (None = not given; 0 is a value like any other: keep every non-zero singular value)
    settings = [(None, None), (0.3, None), (1e-3, None), (0.0, None), (0, None), (None, 1), (0.3, 1), (0.0, 1)] + ([(None, k - 1)] if k >= 3 else [])
    # settings given at construction, which a call that gives none falls back on
    ctors = [(None, None), (0.3, None), (1e-3, 1), (0.0, None)] + ([(0.3, k - 1)] if k >= 3 else [])
    for ctor in ctors:
        ckw = {}
        if ctor[0] is not None:
            ckw["rcond"] = ctor[0]
        if ctor[1] is not None:
            ckw["sing_val_cutoff"] = ctor[1]
        for first in settings:
            svd = SVD(A, **ckw)
            for j, (rcond, cutoff) in enumerate([first] + settings):
                eff_rcond = rcond if rcond is not None else ctor[0]
                eff_cutoff = cutoff if cutoff is not None else ctor[1]
                keep = kept_indices(s, eff_rcond, eff_cutoff)
                kwargs = {}
                if rcond is not None:
                    kwargs["rcond"] = rcond
                if cutoff is not None:
                    kwargs["sing_val_cutoff"] = cutoff
                x = svd.lstsq(b, **kwargs)
                out["evaluations"] += 1
                if keep is None:
                    out["undecidable"] += 1
                    continue
                Uk, Vk = U[:, keep], V[:, keep]
                smin = min([s[i] for i in keep], default=1.0)
                ref = Vk @ np.diag([1.0 / s[i] for i in keep]) @ Uk.T @ b if keep else np.zeros(n)
                if x.shape != (n,) or np.linalg.norm(x - ref) > 1e-8 * (np.linalg.norm(ref) + np.linalg.norm(b) / smin + 1e-300) * (max(s[0], 1e-300) / smin):
                    if len(out["issues"]) < 20:
                        out["issues"].append({"kind": "violation", "property": "C16", "finding": None, "config": {},
                                              "what": f"SVD.lstsq on an SVD object built with {ckw}: call #{j} with rcond={rcond!r}, sing_val_cutoff={cutoff!r} (after a "
                                                      f"call with {first}) returned {x.tolist()}, the solution restricted to the kept singular values is {ref.tolist()}",
                                              "program": [f"svd = SVD(U diag({s}) V^T, **{ckw})  # {m}x{n} {pname}",
                                                          f"svd.lstsq(b, {first}) ... svd.lstsq(b, rcond={rcond!r}, sing_val_cutoff={cutoff!r})"],
                                              "case": {"kind": "reuse", "id": [m, n, pname]}})
                    return
    out["distinct"].add(("reuse", m, n, pname))


def check_small_int(shape, out):
    import numpy as np
    from xdeps.optimize.matrixutils import SVD
    m, n = shape
    vals = (-1.0, 0.0, 1.0, 2.0)
    for ent in itertools.product(vals, repeat=m * n):
        A = np.array(ent).reshape(m, n)
        for b in (np.array([1.0, -2.0, 0.5][:m]), A @ np.array([1.0, 0.5, -1.0][:n])):
            out["evaluations"] += 1
            x = SVD(A).lstsq(b)
            if not A.any():
                ok = x.shape == (n,) and not x.any()
            else:
                ref = np.linalg.pinv(A, rcond=1e-10) @ b
                ok = x.shape == (n,) and np.linalg.norm(x - ref) <= 1e-9 * (1 + np.linalg.norm(ref))
                # characterisation too: normal equations and x orthogonal to null(A)
                ok = ok and np.linalg.norm(A.T @ (A @ x - b)) <= 1e-9 * (1 + np.linalg.norm(b))
            if not ok and len(out["issues"]) < 20:
                out["issues"].append({"kind": "violation", "property": "C16", "finding": None, "config": {},
                                      "what": f"SVD.lstsq: not the minimum-norm least-squares solution for A={A.tolist()}, b={b.tolist()}: {x.tolist()}",
                                      "program": [f"SVD({A.tolist()}).lstsq({b.tolist()})"], "case": {"kind": "smallint", "A": A.tolist(), "b": b.tolist()}})
    out["distinct"].add(("smallint", shape))


# ---------------------------------------------------------------- (b) linear problems
def linear_cases(tier):
    fams = ["lin1", "lin2", "lin2skew", "lin3", "lin_tall", "lin_wide", "lin4x5", "ident2", "ident3"]
    for fam in fams:
        F = O.FAMILIES[fam]
        nk, nt = F["nk"], F["nt"]
        sts = [[0.1] * nk, [(0.6 if i % 2 == 0 else -0.3) for i in range(nk)], [2.0 - 0.5 * i for i in range(nk)]]
        for x0 in sts:
            for kw in (None, (2.0, 0.5, 4.0, 3.0)[:nk]):
                for tw in (None, (3.0, 0.25, 2.0, 0.5, 1.5)[:nt]):
                    for br in (False, True, 2):
                        yield {"fam": fam, "x0": x0, "kw": kw, "tw": tw, "tol": 1e-8, "limits": [(-50.0, 50.0)] * nk, "broyden": br, "nsm": 20}
                    # limits written as whole numbers (Python ints), odd so that limit / weight is not whole
                    yield {"fam": fam, "x0": x0, "kw": kw, "tw": tw, "tol": 1e-8, "limits": [(-51, 53)] * nk, "broyden": False, "nsm": 20}
                    ks = F["ksol"]
                    # one knob is disabled and already holds its solution value: the remaining problem is consistent, the step must land
                    if 2 <= nk <= nt:
                        for j in range(nk):
                            xj = list(x0)
                            xj[j] = ks[j]
                            for br in (False, True):
                                yield {"fam": fam, "x0": xj, "kw": kw, "tw": tw, "tol": 1e-8, "limits": [(-50.0, 50.0)] * nk, "broyden": br, "nsm": 20,
                                       "dv": (j,)}
                    # the start point sits exactly on a limit of every knob (upper / lower), the solution is inside
                    if nk <= nt:
                        up = [max(k + 1.0, 2.0) for k in ks]
                        lo = [min(k - 1.0, -2.0) for k in ks]
                        yield {"fam": fam, "x0": up, "kw": kw, "tw": tw, "tol": 1e-8, "limits": [(-50.0, u) for u in up], "broyden": False, "nsm": 20}
                        yield {"fam": fam, "x0": lo, "kw": kw, "tw": tw, "tol": 1e-8, "limits": [(l, 50.0) for l in lo], "broyden": False, "nsm": 20}


def check_linear(spec, out):
    out["evaluations"] += 1
    p = O.Problem(spec)
    what = None
    try:
        p.opt.step(1)
        k = p.knob_values()
        vals = p.f(k)
        err = max(abs(v - t) for v, t in zip(vals, p.tvals))
        if err > 1e-6:
            what = f"after the first Jacobian step the targets are off by {err:.3e} (knobs {k!r}); a linear problem is solved by one exact Newton step"
        elif O.FAMILIES[spec["fam"]]["nk"] <= O.FAMILIES[spec["fam"]]["nt"]:
            ks = O.FAMILIES[spec["fam"]]["ksol"]
            d = max(abs(a - b) for a, b in zip(k, ks))
            if d > 1e-6:
                what = f"first step landed on {k!r}, the solution is {ks!r}"
        else:
            # under-determined: the step must be the minimum-norm one in weight-scaled coordinates
            x0 = [a / w for a, w in zip(spec["x0"], p.kw)]
            x1 = [a / w for a, w in zip(k, p.kw)]
            dx = [b - a for a, b in zip(x0, x1)]
            import numpy as np
            A = np.array([[tw * c * w for c, w in zip(row, p.kw)] for row, tw in zip(_matrix(spec["fam"]), p.tw)])
            ref = -np.linalg.pinv(A) @ np.array([tw * (v - t) for v, t, tw in zip(p.f(spec["x0"]), p.tvals, p.tw)])
            if np.linalg.norm(np.array(dx) - ref) > 1e-6 * (1 + np.linalg.norm(ref)):
                what = f"under-determined problem: the step {dx!r} is not the minimum-norm solution {ref.tolist()!r}"
    except Exception as e:  # noqa
        what = f"step(1) raised {type(e).__name__}: {e}"
    if what is None:
        q = O.Problem(spec)
        try:
            q.opt.solve(broyden=spec["broyden"])
            if not q.within_tol(q.knob_values()):
                what = "solve() returned outside the tolerances"
        except Exception as e:  # noqa
            what = f"solve(broyden={spec['broyden']}) failed on a consistent well-conditioned linear problem: {type(e).__name__}: {e}"
    out["distinct"].add(("linear", spec["fam"], tuple(spec["x0"]), spec["kw"] is None, spec["tw"] is None, spec["broyden"], spec.get("dv", ()),
                         repr(spec["limits"][0])))
    if what and len(out["issues"]) < 20:
        out["issues"].append({"kind": "violation", "property": "C16", "finding": None, "what": what, "config": {},
                              "program": [f"problem: {O.spec_str(spec)}", "opt.step(1)", f"opt.solve(broyden={spec['broyden']})"],
                              "case": {"kind": "linear", "spec": repr(spec)}})


def broyden_seq_cases():
    for fam in ("lin2", "lin2skew", "lin3", "ident3"):
        F = O.FAMILIES[fam]
        nk = F["nk"]
        for x0 in ([0.1] * nk, [2.0 - 0.5 * i for i in range(nk)]):
            for j in range(nk):
                for kw in (None, (2.0, 0.5, 4.0)[:nk]):
                    for first_broyden in (False, True):
                        yield {"fam": fam, "x0": x0, "kw": kw, "tw": None, "tol": 1e-8, "limits": [(-50.0, 50.0)] * nk, "nsm": 20,
                               "seq_j": j, "first_broyden": first_broyden}


def check_broyden_seq(spec, out):
    """step (measures a Jacobian) ; the user moves the knobs ; one target and one knob are disabled ; a Broyden step on the remaining
    (square, linear) problem must land on its solution: for a linear problem the Broyden-carried Jacobian is exact"""
    out["evaluations"] += 1
    p = O.Problem(spec)
    j = spec["seq_j"]
    what = None
    try:
        p.opt.step(1, broyden=spec["first_broyden"])
        for i in range(p.nk):
            p.knobs[f"k{i}"] = float(spec["x0"][i]) + 0.37 * (i + 1)
        p.opt.disable(target=[j], vary=[j])
        p.opt.step(1, broyden=True)
        k = p.knob_values()
        vals = p.f(k)
        err = max(abs(v - t) for i, (v, t) in enumerate(zip(vals, p.tvals)) if i != j)
        if err > 1e-6:
            what = (f"after disabling target {j} and knob {j}, a Broyden step on the remaining linear problem leaves the active targets off by "
                    f"{err:.3e} (knobs {k!r})")
    except Exception as e:  # noqa
        what = f"sequence raised {type(e).__name__}: {e}"
    out["distinct"].add(("broyden-seq", spec["fam"], tuple(spec["x0"]), j, spec["kw"] is None, spec["first_broyden"]))
    if what and len(out["issues"]) < 20:
        out["issues"].append({"kind": "violation", "property": "C16", "finding": None, "what": what, "config": {},
                              "program": [f"problem: {O.spec_str(spec)}", f"opt.step(1, broyden={spec['first_broyden']})", "knobs moved by the user",
                                          f"opt.disable(target=[{j}], vary=[{j}])", "opt.step(1, broyden=True)"],
                              "case": {"kind": "broyden-seq", "spec": repr(spec)}})


def reconfig_cases():
    for fam in ("lin2", "lin2skew", "lin3", "ident3", "lin_tall"):
        F = O.FAMILIES[fam]
        nk = F["nk"]
        for x0 in ([0.1] * nk, [2.0 - 0.5 * i for i in range(nk)]):
            for what in ("limits-widened", "limits-moved", "weights", "weights+limits", "moved-after-solve"):
                for kw in (None, (2.0, 0.5, 4.0)[:nk]):
                    yield {"fam": fam, "x0": x0, "kw": kw, "tw": None, "tol": 1e-8, "nsm": 20, "reconf": what,
                           "limits": [(x - 0.05, x + 0.05) for x in x0] if what.startswith("limits") else [(-50.0, 50.0)] * nk}


class Deadline:
    """a call of the library that does not return within `seconds` is reported (TimeoutError) instead of stalling the run"""

    def __init__(self, seconds):
        self.seconds = seconds

    def __enter__(self):
        import signal

        def on_alarm(signum, frame):
            raise TimeoutError(f"the call did not return within {self.seconds} s")
        self.old = signal.signal(signal.SIGALRM, on_alarm)
        signal.alarm(self.seconds)

    def __exit__(self, *a):
        import signal
        signal.alarm(0)
        signal.signal(signal.SIGALRM, self.old)
        return False


def target_edit_cases():
    for fam in ("lin2", "lin2skew", "lin3", "ident3", "lin1"):
        F = O.FAMILIES[fam]
        nk = F["nk"]
        for x0 in ([0.1] * nk, [2.0 - 0.5 * i for i in range(nk)]):
            for edit in ("value", "value+weight", "enable"):
                for kw in (None, (2.0, 0.5, 4.0)[:nk]):
                    for br in (False, True):
                        if edit == "enable" and nk < 2:
                            continue
                        yield {"fam": fam, "x0": x0, "kw": kw, "tw": None, "tol": 1e-8, "nsm": 20, "edit": edit, "broyden": br,
                               "limits": [(-50.0, 50.0)] * nk, "dv": (0,) if edit == "enable" else (), "dt": (0,) if edit == "enable" else ()}


def check_target_edit(spec, out):
    """a step; then the user edits the TARGETS (value, weight, or enables a target together with a knob) and leaves the knobs where
    they are; the next Jacobian step of the same optimizer must land on the solution of the edited linear problem"""
    out["evaluations"] += 1
    p = O.Problem(spec)
    what = None
    try:
        with Deadline(5):
            p.opt.step(1, broyden=spec["broyden"])
            if "value" in spec["edit"]:
                for i, t in enumerate(p.opt.targets):
                    t.value = p.tvals[i] + 0.5 * (i + 1)
                    p.tvals[i] = t.value
            if "weight" in spec["edit"]:
                for i, t in enumerate(p.opt.targets):
                    t.weight = (3.0, 0.25, 2.0)[i]
                    p.tw[i] = t.weight
            if spec["edit"] == "enable":
                p.opt.enable(vary=[0], target=[0])
            p.opt.step(1, broyden=False)
        k = p.knob_values()
        vals = p.f(k)
        err = max(abs(v - t) for v, t in zip(vals, p.tvals))
        if err > 1e-6:
            what = (f"after the targets' {spec['edit']} were edited (knobs untouched), a Jacobian step of the same optimizer leaves the targets of a "
                    f"linear problem off by {err:.3e} (knobs {k!r})")
    except Exception as e:  # noqa
        what = f"sequence raised {type(e).__name__}: {e}"
    out["distinct"].add(("target-edit", spec["fam"], tuple(spec["x0"]), spec["edit"], spec["kw"] is None, spec["broyden"]))
    if what and len(out["issues"]) < 20:
        out["issues"].append({"kind": "violation", "property": "C16", "finding": None, "what": what, "config": {},
                              "program": [f"problem: {O.spec_str(spec)}", f"opt.step(1, broyden={spec['broyden']})",
                                          f"targets' {spec['edit']} edited by the user, knobs untouched", "opt.step(1)"],
                              "case": {"kind": "target-edit", "spec": repr(spec)}})


def check_reconfig(spec, out):
    """a step under the first configuration; then the user edits limits and/or weights of the knobs (and may move them); the next
    Jacobian step of the SAME optimizer must land on the solution of the linear problem under the new configuration"""
    import numpy as np
    out["evaluations"] += 1
    p = O.Problem(spec)
    what = None
    try:
        if spec["reconf"] == "moved-after-solve":
            # a successful solve(); the user then moves the knobs directly in their container (nothing is evaluated); solve() again
            # must do its work again and end on a solution
            p.opt.solve()
            for i in range(p.nk):
                p.knobs[p.kn[i]] = dict.__getitem__(p.knobs, p.kn[i]) + 0.3 * (i + 1)
            p.opt.solve()
            k = p.knob_values()
            err = max(abs(v - t) for v, t in zip(p.f(k), p.tvals))
            if err > 1e-6:
                what = (f"solve() ; knobs moved by hand ; solve() returned normally and leaves the targets of a linear problem off by {err:.3e} "
                        f"(knobs {k!r})")
            raise StopIteration
        p.opt.step(1)
        new_w = [0.01, 3.0, 0.5][:p.nk]
        for i, v in enumerate(p.opt.vary):
            if "limits" in spec["reconf"]:
                v.limits = np.array((-1000.0, 1000.0) if spec["reconf"] != "limits-moved" else (-60.0 - i, 70.0 + i))
            if "weights" in spec["reconf"]:
                v.weight = new_w[i]
        if "weights" in spec["reconf"]:
            p.kw = list(new_w)
        # ... and moves the knobs a little: the step under test is the first Jacobian step from a new start point (the solver
        # deliberately keeps a knob that hit a limit out of the NEXT step, so without a new start the claim would not apply)
        for i in range(p.nk):
            p.knobs[p.kn[i]] = dict.__getitem__(p.knobs, p.kn[i]) + 0.01
        p.opt.step(1)
        k = p.knob_values()
        vals = p.f(k)
        err = max(abs(v - t) for v, t in zip(vals, p.tvals))
        if err > 1e-6:
            what = (f"after the knobs' {spec['reconf']} were edited, a Jacobian step of the same optimizer leaves the targets of a linear problem "
                    f"off by {err:.3e} (knobs {k!r})")
    except StopIteration:
        pass
    except Exception as e:  # noqa
        what = f"sequence raised {type(e).__name__}: {e}"
    out["distinct"].add(("reconfig", spec["fam"], tuple(spec["x0"]), spec["reconf"], spec["kw"] is None))
    if what and len(out["issues"]) < 20:
        out["issues"].append({"kind": "violation", "property": "C16", "finding": None, "what": what, "config": {},
                              "program": [f"problem: {O.spec_str(spec)}", "opt.step(1)", f"vary[i].{spec['reconf']} edited by the user", "opt.step(1)"],
                              "case": {"kind": "reconfig", "spec": repr(spec)}})


def _matrix(fam):
    F = O.FAMILIES[fam]
    nk = F["nk"]
    cols = []
    for j in range(nk):
        e = [0.0] * nk
        e[j] = 1.0
        cols.append(F["f"](e))
    return [[cols[j][i] for j in range(nk)] for i in range(F["nt"])]


# ---------------------------------------------------------------- (c) scalings
def check_scalings(out):
    import numpy as np
    weights = [0.1, 0.3, 1.0, 3.0, 7.0, 1e-3, 1e3]
    values = [-2.5, -1.0, -1e-9, 0.0, 1e-9, 0.3, 1.0, 3.7, 1e6]
    p = O.Problem({"fam": "ident3", "x0": [0.1, 0.1, 0.1]})
    err = p.opt._err
    for ws in itertools.product(weights, repeat=3):
        for vv, w in zip(err.vary, ws):
            vv.weight = w
        for vs in (values[i:i + 3] for i in range(len(values) - 2)):
            out["evaluations"] += 1
            x = err._knobs_to_x(vs)
            k2 = err._x_to_knobs(x)
            x2 = err._knobs_to_x(k2)
            bad = [(a, b) for a, b in zip(vs, k2) if O.ulps(a, float(b)) > 4] + [(a, b) for a, b in zip(x, x2) if O.ulps(float(a), float(b)) > 4]
            if any(abs(float(xi) * w - v) > 4 * math.ulp(max(abs(v), 1e-300)) for xi, w, v in zip(x, ws, vs)):
                bad.append(("x*w != knob", list(map(float, x))))
            if bad and len(out["issues"]) < 20:
                out["issues"].append({"kind": "violation", "property": "C16", "finding": None, "config": {},
                                      "what": f"knob weights: _x_to_knobs and _knobs_to_x are not inverse for weights {ws}, values {vs}: {bad[:2]!r}",
                                      "program": [f"weights={ws}", f"knobs={vs}"], "case": {"kind": "weights", "w": list(ws), "v": list(vs)}})
    out["distinct"].add(("weights",))
    # rescale_x
    lims = [(-1.0, 2.0), (0.0, 1.0), (-5.0, -1.0), (3.0, 1e3), (-1e-3, 1e-3), (-2.0, 2.0)]
    ranges = [(0, 1), (-1, 1), (2, 5), (-3.0, -1.0)]
    fr = [0.0, 0.125, 0.5, 0.9, 1.0, -0.25, 1.5]      # the last two lie OUTSIDE the limits: the mappings are affine, not clipped
    for l3 in itertools.product(lims, repeat=3):
        for ws in ((1.0, 1.0, 1.0), (2.0, 0.5, 4.0)):
            q = O.Problem({"fam": "ident3", "x0": [0.5 * (a + b) for a, b in l3], "limits": list(l3), "kw": ws})
            for rg in ranges:
                view = q.opt.get_merit_function(rescale_x=rg, check_limits=False)
                for f3 in ((fr[i], fr[(i + 2) % len(fr)], fr[(i + 3) % len(fr)]) for i in range(len(fr))):
                    out["evaluations"] += 1
                    xs = np.array([rg[0] + f * (rg[1] - rg[0]) for f in f3])
                    xn = view._scaled_to_native(xs)
                    xs2 = view._scaled_from_native(xn)
                    xn2 = view._scaled_to_native(xs2)
                    exp_native = [(lo + f * (hi - lo)) / w for (lo, hi), f, w in zip(l3, f3, ws)]
                    tol_n = [16 * math.ulp(max(abs(lo), abs(hi), hi - lo) / w) for (lo, hi), w in zip(l3, ws)]
                    tol_s = 16 * math.ulp(max(abs(rg[0]), abs(rg[1]), 1.0))
                    what = None
                    if any(abs(float(a) - b) > t for a, b, t in zip(xn, exp_native, tol_n)):
                        what = f"_scaled_to_native({xs.tolist()}) = {xn.tolist()}, the affine map of the limits gives {exp_native}"
                    elif any(abs(float(a) - float(b)) > tol_s for a, b in zip(xs, xs2)):
                        what = f"_scaled_from_native(_scaled_to_native(x)) = {xs2.tolist()} != x = {xs.tolist()}"
                    elif any(abs(float(a) - float(b)) > t for a, b, t in zip(xn, xn2, tol_n)):
                        what = f"_scaled_to_native(_scaled_from_native(x)) = {xn2.tolist()} != x = {xn.tolist()}"
                    if what and len(out["issues"]) < 20:
                        out["issues"].append({"kind": "violation", "property": "C16", "finding": None, "config": {}, "what": "rescale_x: " + what,
                                              "program": [f"limits={l3}, weights={ws}, rescale_x={rg}"],
                                              "case": {"kind": "rescale", "lims": [list(x) for x in l3], "w": list(ws), "rg": list(rg), "f": list(f3)}})
    out["distinct"].add(("rescale",))


# ---------------------------------------------------------------- (d) views
CLOSED = {
    "sepquad": lambda k: [[2 * k[0], 0.0], [0.0, 2 * k[1] + 1.0]],
    "coupled": lambda k: [[2 * k[0], 1.0], [1.0, 2 * k[1]]],
    "quad3": lambda k: [[2 * k[0], 0, 0], [0, 2 * k[1] + 1.0, 0], [0, 0, 2 * k[2] + 2.0]],
    "lin2skew": lambda k: [[1.0, 4.0], [-2.0, 1.0]],
    "lin_tall": lambda k: [[1.0, 0.0], [0.0, 1.0], [1.0, 1.0]],
    "lin_wide": lambda k: [[1.0, 2.0, 0.0], [0.0, 1.0, 1.0]],
}


def view_cases():
    for fam in CLOSED:
        F = O.FAMILIES[fam]
        nk, nt = F["nk"], F["nt"]
        for kw in (None, (2.0, 0.5, 4.0)[:nk]):
            for tw in (None, (3.0, 0.25, 2.0)[:nt]):
                # (limits also written as whole numbers, i.e. Python ints: a legal way of giving them)
                for lims in ([(-1.0, 2.0), (-1.5, 1.0), (-2.0, 4.0)][:nk], [(-3.0, 3.0)] * nk, [(-1, 2), (-3, 1), (-2, 5)][:nk]):
                    for rs in (None, (0, 1), (-1, 1), (2, 5)):
                        for scalar in (False, True):
                            pts = [[0.3, -0.4, 0.7][:nk], [1.1, 0.6, -1.2][:nk],
                                   [l[1] for l in lims],                                   # every knob exactly on its upper limit
                                   [lims[0][0]] + [0.25] * (nk - 1),                       # first knob on its lower limit
                                   [0.25] * (nk - 1) + [lims[-1][1]]]                      # last knob on its upper limit
                            for pt in pts:
                                yield {"fam": fam, "kw": kw, "tw": tw, "limits": lims, "rescale": rs, "scalar": scalar, "pt": pt}
                            # disabled knobs / targets (every single one, first and last together): a disabled knob keeps its value
                            # whatever x says (zero column), a disabled target contributes nothing (zero row)
                            masks = [((i,), ()) for i in range(nk)] + [((), (i,)) for i in range(nt)] + [((0,), (nt - 1,))]
                            if nk >= 3:
                                masks.append(((0, nk - 1), ()))
                            for dv, dt in masks:
                                if len(dv) == nk or len(dt) == nt:
                                    continue
                                yield {"fam": fam, "kw": kw, "tw": tw, "limits": lims, "rescale": rs, "scalar": scalar, "pt": pts[0],
                                       "dv": dv, "dt": dt}


def check_view(c, out):
    import numpy as np
    out["evaluations"] += 1
    F = O.FAMILIES[c["fam"]]
    nk, nt = F["nk"], F["nt"]
    dv, dt = c.get("dv", ()), c.get("dt", ())
    spec = {"fam": c["fam"], "x0": [0.1] * nk, "kw": c["kw"], "tw": c["tw"], "limits": c["limits"], "steps": 1e-7, "dv": dv, "dt": dt}
    p = O.Problem(spec)
    view = p.opt.get_merit_function(return_scalar=c["scalar"], rescale_x=c["rescale"], check_limits=False)
    kpt = np.array(c["pt"], dtype=float)                        # knob values where the Jacobian is wanted
    kw = np.array(p.kw)
    tw = np.array(p.tw)
    xnat = kpt / kw
    lo = np.array([l[0] for l in c["limits"]]) / kw
    hi = np.array([l[1] for l in c["limits"]]) / kw
    if c["rescale"] is not None:
        a, b = c["rescale"]
        xv = a + (xnat - lo) * (b - a) / (hi - lo)
        dnat = (hi - lo) / (b - a)
    else:
        xv = xnat
        dnat = np.ones(nk)
    keff = kpt.copy()
    for j in dv:
        keff[j] = 0.1                                           # a disabled knob stays where it is
    Jk = np.array(CLOSED[c["fam"]](list(keff)), dtype=float)       # d f_i / d knob_j
    J = (tw[:, None] * Jk) * (kw * dnat)[None, :]
    fvec = tw * (np.array(p.f(list(keff))) - np.array(p.tvals))
    for j in dv:
        J[:, j] = 0.0
    for i in dt:
        J[i, :] = 0.0
        fvec[i] = 0.0
    Jexp = 2 * fvec @ J if c["scalar"] else J
    what = None
    try:
        got = np.array(view.get_jacobian(xv), dtype=float)
        val = view(xv)
        vexp = float(fvec @ fvec) if c["scalar"] else fvec
        if not np.allclose(val, vexp, rtol=1e-9, atol=1e-12):
            what = f"view(x) = {np.array(val).tolist()}, expected {np.array(vexp).tolist()}"
        h = 1e-5
        cd = []
        for j in range(nk):
            e = np.zeros(nk)
            e[j] = h
            cd.append((np.array(view(xv + e), dtype=float) - np.array(view(xv - e), dtype=float)) / (2 * h))
        cd = np.array(cd).T if not c["scalar"] else np.array(cd)
        sc = 1e-4 * (1.0 + np.abs(Jexp).max())
        if what is None and (got.shape != np.shape(Jexp) or np.abs(got - Jexp).max() > sc):
            what = f"reported Jacobian {got.tolist()} differs from the closed form {np.array(Jexp).tolist()}"
        elif what is None and np.abs(got - cd).max() > sc:
            what = f"reported Jacobian {got.tolist()} differs from central differences of the same view {cd.tolist()}"
        if what is None and nk > 1 and not dv:
            # a SEQUENCE on the same view: a Jacobian is handed out, then the last knob is disabled, then another Jacobian is asked
            # for: it must agree with central differences of the view as it is NOW, and the array handed out earlier is the caller's
            first = view.get_jacobian(xv)
            kept = np.array(first, dtype=float).copy()
            p.opt.disable(vary=[nk - 1])
            second = np.array(view.get_jacobian(xv), dtype=float)
            cd2 = []
            for j in range(nk):
                e = np.zeros(nk)
                e[j] = h
                cd2.append((np.array(view(xv + e), dtype=float) - np.array(view(xv - e), dtype=float)) / (2 * h))
            cd2 = np.array(cd2).T if not c["scalar"] else np.array(cd2)
            if second.shape != cd2.shape or np.abs(second - cd2).max() > sc:
                what = (f"after knob {nk - 1} was disabled the reported Jacobian {second.tolist()} differs from central differences of the same "
                        f"view {cd2.tolist()}")
            elif not np.array_equal(np.array(first, dtype=float), kept):
                what = "a Jacobian handed out earlier was changed by a later get_jacobian call"
    except Exception as e:  # noqa
        what = f"{type(e).__name__}: {e}"
    out["distinct"].add(("view", c["fam"], c["kw"] is None, c["tw"] is None, c["rescale"], c["scalar"], dv, dt))
    if what and len(out["issues"]) < 20:
        out["issues"].append({"kind": "violation", "property": "C16", "finding": None, "config": {}, "what": "merit-function view: " + what,
                              "program": [f"family={c['fam']} kw={c['kw']} tw={c['tw']} limits={c['limits']}",
                                          f"view = opt.get_merit_function(return_scalar={c['scalar']}, rescale_x={c['rescale']})",
                                          f"view.get_jacobian(x) at knobs {c['pt']}; disabled knobs {list(dv)}, disabled targets {list(dt)}"],
                              "case": {"kind": "view", "c": repr(c)}})


# ---------------------------------------------------------------- driver
def new_out():
    return {"evaluations": 0, "issues": [], "distinct": set(), "undecidable": 0, "truncated": 0}


def job(chunk):
    out = new_out()
    for kind, payload in chunk:
        if len(out["issues"]) >= 5:
            break       # the run is already a failure: no need to sit through every further case (some failures are time-outs)
        if kind == "lstsq":
            check_lstsq_case(payload, out)
            check_lstsq_blocks(payload, out)
        elif kind == "smallint":
            check_small_int(payload, out)
        elif kind == "linear":
            check_linear(payload, out)
        elif kind == "scalings":
            check_scalings(out)
        elif kind == "view":
            check_view(payload, out)
        elif kind == "reuse":
            check_reuse_case(payload, out)
        elif kind == "broyden-seq":
            check_broyden_seq(payload, out)
        elif kind == "reconfig":
            check_reconfig(payload, out)
        elif kind == "target-edit":
            check_target_edit(payload, out)
    out["distinct"] = {repr(x) for x in out["distinct"]}
    return out


def all_items(tier):
    items = [("lstsq", c) for c in lstsq_cases(tier)]
    items += [("smallint", (2, 2)), ("smallint", (2, 3))]
    if tier == "thorough":
        items += [("smallint", (3, 2))]
    items += [("linear", s) for s in linear_cases(tier)]
    items += [("scalings", None)]
    items += [("view", c) for c in view_cases()]
    items += [("reuse", c) for c in reuse_cases()]
    items += [("broyden-seq", c) for c in broyden_seq_cases()]
    items += [("reconfig", c) for c in reconfig_cases()]
    items += [("target-edit", c) for c in target_edit_cases()]
    return items


def plan(tier, seed):
    return {"level": LEVEL,
            "jobs": [{"name": "enum", "mode": "pure", "hashseed": seed % 2 ** 32, "nproc": 16, "timeout": 3300, "args": {"tier": tier}}],
            "assumptions": ["the claim is the stated finite family of matrices / problems / lattices, not all real matrices",
                            "cases in which a singular value lies within a factor 2 of a truncation threshold, or a cut-off splits a block of equal "
                            "singular values, are skipped and counted (the kept subspace is then not determined by the documentation)",
                            "tolerances: 1e-9 relative (scaled by the condition of the kept system) for lstsq; 1e-6 for landing on the solution; "
                            "4 ulp for weights, 8 ulp of the range for rescale_x; 1e-4 relative for Jacobians (forward differences inside)"]}


def run_job(job_):
    items = all_items(job_["args"]["tier"])
    heavy = [it for it in items if it[0] in ("smallint", "scalings")]
    light = [it for it in items if it[0] not in ("smallint", "scalings")]
    chunks = [[h] for h in heavy] + E.chunked(light, 60)
    r = E.pmap(job, chunks, job_.get("nproc", 1))
    r["distinct_n"] = len(r.pop("distinct", ()))
    r["items"] = {k: sum(1 for it in items if it[0] == k) for k in ("lstsq", "smallint", "linear", "scalings", "view", "reuse", "broyden-seq", "reconfig", "target-edit")}
    return r


def finish(plan_, results):
    r = results[0]
    cov = {"evaluations": int(r["evaluations"]), "distinct_nontrivial": int(r["distinct_n"]), "exhaustive": True,
           "case_groups": r["items"], "lstsq_cases_with_truncation": int(r.get("truncated", 0)),
           "lstsq_cases_skipped_threshold_ambiguous": int(r.get("undecidable", 0)),
           "rule": "every member of the stated finite families; distinct_nontrivial = distinct (shape, singular-value pattern, rcond, cut-off, rhs) / "
                   "(family, start, weights, Broyden) / (family, weights, rescale_x, return_scalar) classes",
           "samples": [{"lstsq": "A = U diag([3,2,0]) V^T 3x5, rcond=None, sing_val_cutoff=2, b out of range"},
                       {"linear": O.spec_str(next(linear_cases("quick")))},
                       {"view": "coupled quadratic, kw=(2,0.5), tw=(3,0.25), rescale_x=(2,5), return_scalar=True"}]}
    return cov, r["issues"]


def replay(issue):
    import ast
    case = issue["case"]
    out = new_out()
    if case["kind"] == "linear":
        check_linear(ast.literal_eval(case["spec"]), out)
    elif case["kind"] == "view":
        check_view(ast.literal_eval(case["c"]), out)
    elif case["kind"] == "smallint":
        import numpy as np
        A = np.array(case["A"])
        check_small_int(A.shape, out)
    elif case["kind"] in ("weights", "rescale"):
        check_scalings(out)
    elif case["kind"] == "broyden-seq":
        check_broyden_seq(ast.literal_eval(case["spec"]), out)
    elif case["kind"] == "reconfig":
        check_reconfig(ast.literal_eval(case["spec"]), out)
    elif case["kind"] == "target-edit":
        check_target_edit(ast.literal_eval(case["spec"]), out)
    elif case["kind"] == "reuse":
        for c in reuse_cases():
            if [c[0], c[1], c[4]] == case["id"]:
                check_reuse_case(c, out)
    else:
        want = case["id"]
        for c in lstsq_cases("thorough"):
            if [c[0], c[1], c[4], c[6], c[7]] == want[:5]:
                check_lstsq_case(c, out)
                check_lstsq_blocks(c, out)
    return {"still_fails": bool(out["issues"]), "what": out["issues"][0]["what"] if out["issues"] else "ok"}
