"""Helpers shared by the property drivers."""
import ast

from .. import explore


def seeds_for(tier, seed, quick=(0, 1, 2), thorough=tuple(range(8))):
    base = list(quick if tier == "quick" else thorough)
    extra = seed % (2 ** 32)
    if extra not in base:
        base.append(extra)
    return base


def config_info(job):
    return {"mode": job.get("mode", "compiled"), "hashseed": job.get("hashseed", 0)}


def run_bfs(system, job):
    a = job["args"]
    res = explore.bfs(system, a["depth"], nproc=job.get("nproc", 1), time_cap=a.get("time_cap"))
    res["name"] = job.get("name")
    res["config"] = config_info(job)
    res["alphabet_size"] = len(system.universe)
    res["kind"] = "bfs"
    return res


def merge_bfs(results, sample_from=None):
    """Merge per-configuration BFS results into model_checking coverage."""
    cov = {"states": 0, "transitions": 0, "traces_validated_against_impl": 0,
           "exhaustive": True, "configurations": [], "stats": {}}
    issues = []
    for r in results:
        if r.get("kind") != "bfs":
            continue
        cov["states"] += r["states"]
        cov["transitions"] += r["transitions"]
        cov["traces_validated_against_impl"] += r["traces"]
        cov["exhaustive"] = cov["exhaustive"] and r["exhaustive"]
        cov["configurations"].append({
            "name": r["name"], "config": r["config"], "states": r["states"],
            "transitions": r["transitions"], "max_depth_completed": r["max_depth"],
            "depth_bound": r["depth_bound"], "alphabet_size": r["alphabet_size"],
            "per_depth": r["per_depth"], "exhaustive": r["exhaustive"], "wall_s": round(r["wall_s"], 2)})
        explore.merge_stats(cov["stats"], r["stats"])
        issues.extend(r["issues"])
    cov["stats"] = jsonable(cov["stats"])
    cov["max_depth"] = max([c["max_depth_completed"] for c in cov["configurations"]] or [0])
    return cov, issues


def jsonable(x):
    if isinstance(x, dict):
        return {str(k): jsonable(v) for k, v in x.items()}
    if isinstance(x, (set, frozenset)):
        return sorted((jsonable(v) for v in x), key=repr)[:50]
    if isinstance(x, (list, tuple)):
        return [jsonable(v) for v in x]
    if isinstance(x, (int, float, str, bool)) or x is None:
        return x
    return repr(x)


def parse_ops(reprs):
    return [ast.literal_eval(s) for s in reprs]
