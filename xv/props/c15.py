"""C15 — the optimizer log is truthful: reload reproduces a row, steps never
end worse.  Model checking (engine H) over sequences of Optimize API calls
(step / step without take_best / Broyden step / solve incl. failing solves /
reload(first|middle|last) / tag / enable / disable / clear_log) up to the
depth bound, on merit-function families that include a non-monotone Newton
iteration, an overshooting one and an inconsistent system.  After EVERY call,
for EVERY row of the public log(): an independent evaluation of the family
function at the row's knobs with the row's masks reproduces the row's target
values (exact) and penalty (rel 1e-12); reload(i) puts knobs and flags of row
i back (bit exact); a step(take_best=True) that returns ends within all
tolerances or on a minimum-penalty row of that call, never worse than it
started."""
import ast
import math

from .. import optsys as O
from .. import simple
from . import common

LEVEL = "model_checking"

SYSTEMS = {
    "cubic": {"fam": "cubic", "x0": [0.1], "nsm": 4, "tol": 1e-9},                                  # Newton 2-cycle
    "atan": {"fam": "atan", "x0": [2.0], "nsm": 4, "tol": 1e-9},                                    # overshoot, needs bisection
    "coupled": {"fam": "coupled", "x0": [0.1, 0.1], "nsm": 4, "tol": 1e-9},
    "inconsistent": {"fam": "lin_tall_inc", "x0": [0.1, 0.1], "nsm": 3, "tol": 1e-9},
    "quad_limits_w": {"fam": "sepquad", "x0": [0.6, -0.3], "nsm": 4, "tol": 1e-6, "limits": [(-0.5, 1.2), (-1.0, 0.4)],
                      "kw": (2.0, 0.5), "tw": (3.0, 0.25)},
    # weights far below 1 with loose tolerances: "within tolerance" read on weighted residuals differs from the stated reading
    "cubic_w": {"fam": "cubic", "x0": [0.1], "nsm": 2, "tol": 0.05, "tw": (1e-3,)},
    "atan_w": {"fam": "atan", "x0": [2.0], "nsm": 2, "tol": 0.01, "tw": (1e-3,)},
    "cliff_w": {"fam": "cliff", "x0": [0.0], "nsm": 4, "tol": [0.02, 0.019], "tw": (1e-3, 1.0)},
    "bump": {"fam": "bump", "x0": [0.5, 0.5], "nsm": 4, "tol": 1e-9},
    "trig_ms": {"fam": "trig", "x0": [2.0, 1.5], "nsm": 4, "tol": 1e-9, "max_step": [0.5, None]},
}

UNIVERSE = [("step", 1), ("step", 3), ("step_nobest", 2), ("step_broyden", 2), ("solve",), ("solve_n", 1),
            ("reload", "first"), ("reload", "mid"), ("reload", "last"), ("tag", "A"),
            ("disable_vary", 0), ("enable_vary", 0), ("disable_target", 0), ("enable_target", 0), ("clear_log",),
            ("tune", 0)]


class System(simple.SimpleSystem):
    prop = "C15"

    def __init__(self, sysname, config_info=None):
        super().__init__(config_info)
        self.name = sysname
        self.spec = SYSTEMS[sysname]
        self.universe = list(UNIVERSE)
        F = O.FAMILIES[self.spec["fam"]]
        if F["nk"] < 2:
            self.universe = [o for o in self.universe if o[0] not in ("disable_vary", "enable_vary", "tune")]
        if F["nt"] < 2:
            self.universe = [o for o in self.universe if o[0] not in ("disable_target", "enable_target")]

    def build(self):
        return {"p": O.Problem(self.spec)}

    def enabled(self, live, hist):
        p = live["p"]
        out = []
        for i, op in enumerate(self.universe):
            k = op[0]
            if k == "disable_vary" and not p.vary_flags()[op[1]]:
                continue
            if k == "enable_vary" and p.vary_flags()[op[1]]:
                continue
            if k == "disable_target" and not p.target_flags()[op[1]]:
                continue
            if k == "enable_target" and p.target_flags()[op[1]]:
                continue
            out.append(i)
        return out

    def apply(self, live, op):
        p = live["p"]
        opt = p.opt
        k = op[0]
        live["pre"] = {"nrows": len(opt.log()), "knobs": p.knob_values(), "tflags": p.target_flags(), "vflags": p.vary_flags()}
        if k == "step":
            opt.step(op[1])
        elif k == "step_nobest":
            opt.step(op[1], take_best=False)
        elif k == "step_broyden":
            opt.step(op[1], broyden=True)
        elif k == "solve":
            opt.solve()
        elif k == "solve_n":
            opt.solve(n_steps=op[1])
        elif k == "reload":
            n = len(opt.log())
            i = {"first": 0, "mid": n // 2, "last": n - 1}[op[1]]
            live["pre"]["reload_row"] = p.log_table_rows()[i]
            opt.reload(i)
        elif k == "tag":
            opt.tag(op[1])
        elif k == "disable_vary":
            opt.disable(vary=[op[1]])
        elif k == "enable_vary":
            opt.enable(vary=[op[1]])
        elif k == "disable_target":
            opt.disable(target=[op[1]])
        elif k == "enable_target":
            opt.enable(target=[op[1]])
        elif k == "clear_log":
            opt.clear_log()
        elif k == "tune":
            # the user re-tunes a knob by hand (a plain write to the knob container), staying inside the limits
            name = p.kn[op[1]]
            v = dict.__getitem__(p.knobs, name) + 0.125
            if p.limits is not None and v > p.limits[op[1]][1]:
                v = p.limits[op[1]][0] + 0.0625
            p.knobs[name] = v
        else:
            raise ValueError(op)

    NOISE = {"call_counter", "ncalls", "_step", "_step_best", "func", "vary", "targets", "actions", "verbose", "_last_data", "_last_jac_svd",
             "tw_kwargs", "solver", "_log", "show_call_counter"}

    def canon(self, live):
        """full state: the log, the containers, the flags and every attribute of the optimizer, its solver and its merit function
        (Broyden memory, sticky flags, anything a change to the library may add) except pure counters / back references"""
        p = live["p"]

        def attrs(o):
            out = []
            for k in sorted(o.__dict__):
                if k in self.NOISE:
                    continue
                v = o.__dict__[k]
                if hasattr(v, "tolist"):
                    v = v.tolist()
                out.append((k, repr(v)))
            return out
        return simple.digest((p.log_rows(), p.knob_values(), p.vary_flags(), p.target_flags(),
                              attrs(p.opt), attrs(p.opt.solver), attrs(p.opt._err)))

    def op_str(self, op):
        k = op[0]
        return {"step": lambda: f"opt.step({op[1]})", "step_nobest": lambda: f"opt.step({op[1]}, take_best=False)",
                "step_broyden": lambda: f"opt.step({op[1]}, broyden=True)", "solve": lambda: "opt.solve()",
                "solve_n": lambda: f"opt.solve(n_steps={op[1]})", "reload": lambda: f"opt.reload(<{op[1]} row>)",
                "tag": lambda: f"opt.tag({op[1]!r})", "disable_vary": lambda: f"opt.disable(vary=[{op[1]}])",
                "enable_vary": lambda: f"opt.enable(vary=[{op[1]}])", "disable_target": lambda: f"opt.disable(target=[{op[1]}])",
                "enable_target": lambda: f"opt.enable(target=[{op[1]}])", "clear_log": lambda: "opt.clear_log()",
                "tune": lambda: f"knob {op[1]} re-tuned by hand: container value += 0.125"}[k]()

    def issue(self, hist, op, what, detail=None, kind="violation", finding=None):
        it = super().issue(hist, op, what, detail, kind, finding)
        it["program"] = [f"problem: {O.spec_str(self.spec)}"] + it["program"]
        return it

    # ------------------------------------------------------------------
    def transition(self, live, op, obs, exc, hist, mk):
        p = live["p"]
        pre = live["pre"]
        issues = []
        rows = p.log_table_rows()
        raw = p.raw_log_rows()
        # the public table reports what the log holds
        if raw is not None and (len(rows) != len(raw) or any(a["knobs"] != b["knobs"] or a["penalty"] != b["penalty"] or a["vary_active"] != b["vary_active"]
                                        or a["target_active"] != b["target_active"] for a, b in zip(rows, raw))):
            issues.append(self.issue(hist, op, "Optimize.log() disagrees with the recorded log"))
            return issues
        # every row is reproducible by an independent evaluation
        for i, r in enumerate(rows):
            vals = p.f(r["knobs"])
            if [float(v) for v in vals] != r["targets"]:
                issues.append(self.issue(hist, op, f"log row {i}: recorded target values {r['targets']!r} but the function at the recorded knobs "
                                                   f"{r['knobs']!r} gives {vals!r}"))
                return issues
            pen = p.penalty(r["knobs"], r["target_active"])
            if abs(pen - r["penalty"]) > 1e-12 * max(1.0, abs(pen)):
                issues.append(self.issue(hist, op, f"log row {i}: recorded penalty {r['penalty']!r} but the recorded knobs {r['knobs']!r} with the "
                                                   f"recorded target mask {r['target_active']!r} give {pen!r}"))
                return issues
        k = op[0]
        # a knob that is disabled is never changed by a step (C10's clause, here over call sequences): steps of any outcome, and a
        # solve() that returns normally (a failing solve() restores iteration 0 by design)
        if k in ("step", "step_nobest", "step_broyden") or (k in ("solve", "solve_n") and exc is None):
            kv = p.knob_values()
            for i, (act, a, b) in enumerate(zip(pre["vflags"], pre["knobs"], kv)):
                if not act and a != b:
                    issues.append(self.issue(hist, op, f"knob {i} is disabled but the call changed it from {a!r} to {b!r}"))
                    return issues
            for r_i in range(pre["nrows"], len(rows)):
                for i, act in enumerate(pre["vflags"]):
                    if not act and rows[r_i]["knobs"][i] != pre["knobs"][i] and rows[r_i]["tag"] != "take_best":
                        issues.append(self.issue(hist, op, f"log row {r_i} records the disabled knob {i} at {rows[r_i]['knobs'][i]!r}, its value is "
                                                           f"{pre['knobs'][i]!r}"))
                        return issues
        if k == "reload" and exc is None:
            want = pre["reload_row"]
            unit = self.spec.get("kw") is None
            kv = p.knob_values()
            if any((a != b) if unit else (O.ulps(a, b) > 2) for a, b in zip(kv, want["knobs"])) \
                    or p.vary_flags() != want["vary_active"] or p.target_flags() != want["target_active"]:
                issues.append(self.issue(hist, op, f"reload put knobs {kv!r} flags {p.vary_flags()}/{p.target_flags()}; the row records knobs "
                                                   f"{want['knobs']!r} flags {want['vary_active']}/{want['target_active']}"))
        if k in ("step", "step_broyden") and exc is None:
            kv = p.knob_values()
            if not p.within_tol(kv):
                called = rows[pre["nrows"]:]
                cand = [r for r in called if r["tag"] != "take_best"]
                if cand:
                    m = min(r["penalty"] for r in cand)
                    best = [r for r in cand if r["penalty"] == m]
                    if not any(r["knobs"] == kv for r in best):
                        issues.append(self.issue(hist, op, f"step() with take_best returned outside the tolerances at knobs {kv!r}; the minimum-penalty "
                                                           f"point logged during the call is {best[0]['knobs']!r} (penalty {m!r}); rows of the call: "
                                                           f"{[(r['knobs'], r['penalty']) for r in called]!r}"))
                p_end = p.penalty(kv, p.target_flags())
                p_start = p.penalty(pre["knobs"], pre["tflags"])
                if p_end > p_start * (1 + 1e-12) + 1e-300:
                    issues.append(self.issue(hist, op, f"step() with take_best ended at penalty {p_end!r}, worse than where it started ({p_start!r})"))
        return issues


def plan(tier, seed):
    jobs = []
    depth = 4 if tier == "quick" else 5
    names = ["cubic", "atan", "coupled", "inconsistent", "quad_limits_w", "cubic_w", "atan_w", "cliff_w"] if tier == "quick" else list(SYSTEMS)
    for nm in names:
        jobs.append({"name": f"bfs:{nm}:d{depth}", "mode": "pure", "hashseed": seed % 2 ** 32, "nproc": 3 if tier == "quick" else 16,
                     "timeout": 3400, "args": {"system": nm, "depth": depth, "time_cap": 2700}})
    return {"level": LEVEL, "jobs": jobs,
            "assumptions": ["target values compared exactly (the logged evaluation happened at bit-identical knobs); penalty to 1e-12 relative "
                            "(summation order); reload exact for unit weights, 2 ulp otherwise",
                            "a step() that raises (e.g. penalty increase guard) is not a 'step that returns normally'"]}


def run_job(job):
    a = job["args"]
    return common.run_bfs(System(a["system"], common.config_info(job)), job)


def finish(plan_, results):
    cov, issues = common.merge_bfs(results)
    cov["samples"] = [{"history": it["program"], "what": it["what"]} for it in issues[:3]] or [
        {"problem": O.spec_str(SYSTEMS["cubic"]), "history": ["opt.step(3)", "opt.reload(<mid row>)", "opt.solve()"],
         "checked": "every log row re-evaluated independently; reload row restored; take_best post-condition"}]
    return cov, issues


def replay(issue):
    ops = [ast.literal_eval(s) for s in issue["ops"]]
    s = System(issue["case"]["system"], issue.get("config"))
    s.universe = ops
    hist = tuple(range(len(ops) - 1))
    live = s.replay(hist)
    exc = None
    try:
        s.apply(live, ops[-1])
    except Exception as e:  # noqa
        exc = e
    found = s.transition(live, ops[-1], None, exc, hist, None)
    return {"still_fails": bool(found), "what": found[0]["what"] if found else "ok"}
