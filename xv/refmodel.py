"""Reference model of the Manager: definitions + plain data, no indices, no
push scheduling.  Expected contents after an assignment are obtained by
running exactly the *trigger set* (documented-dependency reachability, graph
G) in a topological order of *precise* data flow (graph P); independently the
pull invariant ("every definition holds on the current contents") is checked
on the result.

Tasks are identified by ids: ('E', path) for an expression definition,
('F', id) for a FunctionTask, ('K', id) for a LinearKnob.
"""
import copy

from . import terms as T
from .world import fun_semantics


def plain_copy(x):
    if isinstance(x, dict):
        return {k: plain_copy(v) for k, v in x.items()}
    if isinstance(x, list):
        return [plain_copy(v) for v in x]
    if isinstance(x, T.PObj):
        return T.PObj(**{k: plain_copy(v) for k, v in x.__dict__.items()})
    return x


class ModelError(Exception):
    """The model itself is inconsistent (a harness fault, never a violation)."""


class Task:
    __slots__ = ("tid", "kind", "term", "reads", "writes", "deps", "tgts", "extra")

    def __init__(self, tid, kind, term=None, reads=(), writes=(), deps=(), tgts=(), extra=None):
        self.tid = tid
        self.kind = kind
        self.term = term
        self.reads = frozenset(reads)      # exact locations read
        self.writes = tuple(writes)        # exact locations written (ordered)
        self.deps = frozenset(deps)        # documented dependency set (closure)
        self.tgts = frozenset(tgts)        # documented target set (closure)
        self.extra = extra


def expr_task(path, term):
    return Task(("E", path), "E", term, T.reads(term), (path,), T.deps(term), T.closure(path))


def fun_task(fid, spec):
    reads, writes, kind = spec
    return Task(("F", fid), "F", None, reads, writes, set(reads), set(writes), kind)


def knob_task(kid, spec, prev):
    src, weights, targets = spec
    return Task(("K", kid), "K", None, (src,), targets, {src}, set(targets),
                {"weights": tuple(weights), "src": src, "prev": prev})


def p_edge(a, b):
    """precise data flow a -> b: a writes something b reads (overlap)."""
    for w in a.writes:
        for r in b.reads:
            if T.overlap(w, r):
                return True
    return False


def g_edge(a, b):
    """documented ordering edge a -> b: targets(a) & deps(b) non-empty."""
    return not a.tgts.isdisjoint(b.deps)


class MState:
    """Immutable-style model state; `step` returns a new one."""

    def __init__(self, spec, vals=None, tasks=None, frozen=False):
        self.spec = spec
        self.vals = vals if vals is not None else {"s": plain_copy(spec["data"])}
        self.tasks = tasks if tasks is not None else {}   # tid -> Task (insertion = registration order)
        self.frozen = frozen

    def clone(self):
        tasks = {}
        for tid, t in self.tasks.items():
            if t.kind == "K":
                t2 = Task(t.tid, t.kind, None, t.reads, t.writes, t.deps, t.tgts, dict(t.extra))
                tasks[tid] = t2
            else:
                tasks[tid] = t
        return MState(self.spec, {"s": plain_copy(self.vals["s"])}, tasks, self.frozen)

    # -- data ------------------------------------------------------------
    def roots(self):
        r = dict(self.vals)
        r["f"] = T.Funcs()
        return r

    def get(self, path):
        return T.get_path(self.vals, path)

    def defs(self):
        return {tid[1]: t.term for tid, t in self.tasks.items() if t.kind == "E"}

    def expr_of(self, path):
        t = self.tasks.get(("E", path))
        return t.term if t else None

    # -- graphs ----------------------------------------------------------
    def p_graph(self, tasks=None):
        tasks = self.tasks if tasks is None else tasks
        ids = list(tasks)
        return {a: [b for b in ids if b != a and p_edge(tasks[a], tasks[b])] for a in ids}

    def g_graph(self, tasks=None):
        tasks = self.tasks if tasks is None else tasks
        ids = list(tasks)
        return {a: [b for b in ids if g_edge(tasks[a], tasks[b])] for a in ids}

    def p_acyclic_with(self, path, term):
        """Would defining path := term keep precise data flow acyclic?"""
        tasks = dict(self.tasks)
        new = expr_task(path, term)
        tasks[new.tid] = new
        if p_edge(new, new):
            return False
        return toposort_all({a: [b for b in tasks if b != a and p_edge(tasks[a], tasks[b])]
                             for a in tasks}) is not None

    def trigger(self, path):
        """Tasks run by an assignment to `path` (G reachability from the
        tasks whose documented dependencies meet the assigned location or an
        enclosing container)."""
        start_deps = T.closure(path)
        start = [tid for tid, t in self.tasks.items() if not t.deps.isdisjoint(start_deps)]
        g = self.g_graph()
        seen = set()
        todo = list(start)
        while todo:
            x = todo.pop()
            if x in seen:
                continue
            seen.add(x)
            todo.extend(g[x])
        return start, seen

    def writers_of(self, path):
        """ids of tasks that write `path` or something overlapping it."""
        return [tid for tid, t in self.tasks.items() if any(T.overlap(w, path) for w in t.writes)]

    # -- execution -------------------------------------------------------
    def run(self, tids_in_order):
        """Execute tasks in the given order on self.vals (in place)."""
        roots = self.roots()
        for tid in tids_in_order:
            t = self.tasks[tid]
            if t.kind == "E":
                T.set_path(roots, t.writes[0], T.ev(t.term, roots))
            elif t.kind == "F":
                reads, writes, kind = self.spec["funs"][tid[1]]
                vals = [T.get_path(roots, p) for p in reads]
                for p, v in zip(writes, fun_semantics(kind, vals, len(writes))):
                    T.set_path(roots, p, v)
            elif t.kind == "K":
                value = T.get_path(roots, t.extra["src"])
                delta = value - t.extra["prev"]
                for w, p in zip(t.extra["weights"], t.writes):
                    T.set_path(roots, p, T.get_path(roots, p) + w * delta)
                t.extra["prev"] = value

    def order_for(self, tids):
        """A topological order of P restricted to `tids` (None if cyclic)."""
        tids = [t for t in self.tasks if t in tids]
        sub = {a: [b for b in tids if b != a and p_edge(self.tasks[a], self.tasks[b])] for a in tids}
        return toposort_all(sub)

    def pull_violations(self):
        """Definitions that do not hold on the current contents."""
        bad = []
        roots = self.roots()
        for tid, t in self.tasks.items():
            if t.kind == "E":
                want = T.ev(t.term, roots)
                if not T.same(want, T.get_path(roots, t.writes[0])):
                    bad.append(tid)
            elif t.kind == "F":
                reads, writes, kind = self.spec["funs"][tid[1]]
                vals = [T.get_path(roots, p) for p in reads]
                for p, v in zip(writes, fun_semantics(kind, vals, len(writes))):
                    if not T.same(v, T.get_path(roots, p)):
                        bad.append(tid)
                        break
        return bad


def toposort_all(graph):
    """Kahn; deterministic; None when cyclic."""
    indeg = {a: 0 for a in graph}
    for a, bs in graph.items():
        for b in bs:
            indeg[b] += 1
    ready = [a for a in graph if indeg[a] == 0]
    out = []
    while ready:
        a = ready.pop(0)
        out.append(a)
        for b in graph[a]:
            indeg[b] -= 1
            if indeg[b] == 0:
                ready.append(b)
    return out if len(out) == len(graph) else None


class Expect:
    """What the model prescribes for one operation."""
    __slots__ = ("raises", "assigned", "start", "trigger", "order", "note")

    def __init__(self):
        self.raises = None     # exception class name expected, or None
        self.assigned = None   # path written by the assignment itself
        self.start = ()        # start set (task ids)
        self.trigger = set()   # set of task ids that must run
        self.order = []        # one P-valid order of them
        self.note = ""


def step(ms, op):
    """Apply op to a copy of ms; returns (new state, Expect)."""
    ns = ms.clone()
    ex = Expect()
    k = op[0]
    if k == "fsetset":
        # an assignment whose first attempt fails at a container write and which is then repeated: same end state as the assignment
        return step(ms, ("set", op[1], op[2]))
    if k == "callfun":
        # one call of a function generated for several inputs: the end state of assigning the inputs one after the other
        cur, trig = ms, set()
        for L, v in zip(op[1], op[2]):
            cur, e1 = step(cur, ("set", L, v))
            if e1.raises:
                return ms, e1
            trig |= set(e1.trigger)
        ex.assigned = op[1][0]
        ex.trigger = trig
        ex.order = cur.order_for(trig) or []
        return cur, ex
    if k in ("set", "def", "iop", "setc"):
        path = op[1]
        structural = False
        if k == "set":
            value, term = op[2], None
        elif k == "setc":
            value, term = plain_copy(op[2]), None
        elif k == "def":
            value, term = None, op[2]
        else:  # iop
            old = ns.expr_of(path)
            operand = op[3]
            if old is not None:
                term = ("bin", op[2], old, operand)
                value = None
            elif T.has_ref(operand):
                term = ("bin", op[2], ("lit", ns.get(path)), operand)
                value = None
            else:
                term = None
                # plain Python arithmetic on plain values (no NaN guard here)
                value = T.BIN[op[2]](ns.get(path), T.ev(operand, ns.roots()))
        had = ("E", path) in ns.tasks
        will = term is not None
        if ns.frozen and (had or will):
            ex.raises = "ValueError"
            return ms, ex
        if had:
            del ns.tasks[("E", path)]
        if will:
            ns.tasks[("E", path)] = expr_task(path, term)
            value = T.ev(term, ns.roots())
        T.set_path(ns.vals, path, value)
        ex.assigned = path
        ex.start, ex.trigger = ns.trigger(path)
        order = ns.order_for(ex.trigger)
        if order is None:
            raise ModelError(f"trigger set of {op!r} is P-cyclic")
        ex.order = order
        ns.run(order)
        return ns, ex
    if k == "unreg":
        tid = ("E", op[1])
        if tid not in ns.tasks:
            ex.raises = "KeyError"
            return ms, ex
        if ns.frozen:
            ex.raises = "ValueError"
            return ms, ex
        del ns.tasks[tid]
        return ns, ex
    if k == "unregid":
        tid = next((t for t in ns.tasks if t[0] in "FK" and t[1] == op[1]), None)
        if tid is None:
            ex.raises = "KeyError"
            return ms, ex
        if ns.frozen:
            ex.raises = "ValueError"
            return ms, ex
        del ns.tasks[tid]
        return ns, ex
    if k == "regfun":
        if ns.frozen:
            ex.raises = "ValueError"
            return ms, ex
        t = fun_task(op[1], ns.spec["funs"][op[1]])
        ns.tasks[t.tid] = t
        ns.run([t.tid])
        return ns, ex
    if k == "regknob":
        if ns.frozen:
            ex.raises = "ValueError"
            return ms, ex
        spec = ns.spec["knobs"][op[1]]
        t = knob_task(op[1], spec, ns.get(spec[0]))
        ns.tasks[t.tid] = t
        ns.run([t.tid])
        return ns, ex
    if k == "freeze":
        ns.frozen = True
        return ns, ex
    if k == "unfreeze":
        ns.frozen = False
        return ns, ex
    if k in ("cleanup", "verify", "genfun", "export"):
        return ns, ex       # queries / code generation: nothing observable changes
    if k in ("load", "copyfrom"):
        for path, term in op[1]:
            tid = ("E", path)
            if tid in ns.tasks:
                if not op[2]:
                    continue
                if ns.frozen:
                    ex.raises = "ValueError"
                    return ms, ex
                del ns.tasks[tid]
            if ns.frozen:
                ex.raises = "ValueError"
                return ms, ex
            ns.tasks[tid] = expr_task(path, term)
        return ns, ex
    if k == "refresh":
        if ns.frozen:
            ex.raises = "ValueError?"   # may raise ValueError or be a no-op; never changes anything
            return ms, ex
        return ns, ex
    raise ValueError(f"model: unknown op {op!r}")
