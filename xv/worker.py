"""Worker interpreter: python -m xv.worker <prop> <jobfile> <outfile>.
Runs with PYTHONPATH pointing at the scratch build and a fixed hash seed."""
import importlib
import os
import pickle
import sys
import traceback


def main():
    prop, jf, of = sys.argv[1:4]
    with open(jf, "rb") as fh:
        job = pickle.load(fh)
    try:
        from . import build
        if not job.get("no_xdeps"):
            build.assert_scratch_import()
        mod = importlib.import_module(f"xv.props.{prop.lower()}")
        if "replay" in job.get("args", {}):
            res = mod.replay(job["args"]["replay"])
        else:
            res = mod.run_job(job)
        res.setdefault("job", job.get("name"))
    except BaseException:  # noqa
        res = {"error": f"job {job.get('name')} crashed:\n{traceback.format_exc()[-4000:]}"}
    tmp = of + ".tmp"
    with open(tmp, "wb") as fh:
        pickle.dump(res, fh)
    os.replace(tmp, of)


if __name__ == "__main__":
    main()
