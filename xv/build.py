"""Scratch builds of the *current working tree* of the repository.

A check never imports /repo (the untracked in-tree extension would shadow
refs.py).  It copies xdeps/**/*.py into a fresh directory under /var/tmp,
cythonizes refs.py there for the "compiled" configuration and keeps a second,
extension-free copy for the "pure" configuration.

The compiled extension is cached by the content hash of refs.py (+ compiler
flags + interpreter version): identical source gives an identical binary, so
this is only a speed-up; when the cache is empty or unwritable the extension
is rebuilt.  Nothing a check needs lives under /tmp.
"""
import hashlib
import os
import shutil
import subprocess
import sys
import tempfile
import time

REPO = os.environ.get("XV_REPO", "/repo")
PY = "/venv/bin/python"
SCRATCH_ROOT = os.environ.get("XV_SCRATCH", "/var/tmp")
CACHE_DIR = os.path.join(SCRATCH_ROOT, "xv-cache")
CFLAGS = "-O1 -g0"
CACHE_KEEP = 6

SETUP_PY = """
from Cython.Build import cythonize
from setuptools import setup
setup(name='xdeps_scratch', ext_modules=cythonize('xdeps/refs.py', quiet=True))
"""


class BuildError(Exception):
    pass


def _copy_sources(dst):
    # the repository's own build script decides how the extension is compiled (flags, Cython directives)
    sp = os.path.join(REPO, "setup.py")
    if os.path.exists(sp):
        shutil.copy2(sp, os.path.join(dst, "setup.py"))
    src = os.path.join(REPO, "xdeps")
    if not os.path.isdir(src):
        raise BuildError(f"no xdeps package in {REPO}")
    for root, dirs, files in os.walk(src):
        dirs[:] = [d for d in dirs if d != "__pycache__"]
        rel = os.path.relpath(root, src)
        out = os.path.join(dst, "xdeps", rel) if rel != "." else os.path.join(dst, "xdeps")
        os.makedirs(out, exist_ok=True)
        for f in files:
            if f.endswith(".py"):
                shutil.copy2(os.path.join(root, f), os.path.join(out, f))


def _refs_key(path):
    h = hashlib.sha256()
    with open(path, "rb") as fh:
        h.update(fh.read())
    sp = os.path.join(os.path.dirname(os.path.dirname(path)), "setup.py")
    if os.path.exists(sp):
        with open(sp, "rb") as fh:
            h.update(b"setup.py:" + fh.read())
    h.update(CFLAGS.encode())
    h.update(sys.version.encode())
    try:
        import Cython
        h.update(Cython.__version__.encode())
    except Exception:
        pass
    return h.hexdigest()[:32]


def _prune_cache():
    try:
        ents = [os.path.join(CACHE_DIR, e) for e in os.listdir(CACHE_DIR)]
        ents.sort(key=lambda p: os.path.getmtime(p), reverse=True)
        for p in ents[CACHE_KEEP:]:
            try:
                os.remove(p)
            except OSError:
                pass
    except OSError:
        pass


def _compile(dst):
    """cythonize xdeps/refs.py inside dst (in place); returns path of the .so"""
    script = "setup.py" if os.path.exists(os.path.join(dst, "setup.py")) else "setup_scratch.py"
    if script == "setup_scratch.py":
        with open(os.path.join(dst, script), "w") as fh:
            fh.write(SETUP_PY)
    env = dict(os.environ)
    env["CFLAGS"] = CFLAGS
    env.pop("PYTHONPATH", None)
    bt = os.path.join(dst, "_bt")
    p = subprocess.run(
        [PY, script, "-q", "build_ext", "--inplace", "--build-temp", bt],
        cwd=dst, env=env, stdout=subprocess.PIPE, stderr=subprocess.STDOUT, text=True)
    if p.returncode != 0:
        raise BuildError("cythonize/compile of refs.py failed:\n" + p.stdout[-4000:])
    shutil.rmtree(bt, ignore_errors=True)
    shutil.rmtree(os.path.join(dst, "build"), ignore_errors=True)
    for f in os.listdir(os.path.join(dst, "xdeps")):
        if f.startswith("refs.") and f.endswith(".so"):
            cfile = os.path.join(dst, "xdeps", "refs.c")
            if os.path.exists(cfile):
                os.remove(cfile)
            return os.path.join(dst, "xdeps", f)
    raise BuildError("compile produced no refs extension:\n" + p.stdout[-2000:])


class Scratch:
    """Context manager: builds both configurations, removes them on exit."""

    def __init__(self, modes=("compiled",), keep=False):
        self.modes = tuple(modes)
        self.keep = keep
        self.dir = None
        self.paths = {}
        self.build_s = 0.0
        self.cache_hit = None

    def __enter__(self):
        t0 = time.time()
        self.dir = tempfile.mkdtemp(prefix="xv-", dir=SCRATCH_ROOT)
        try:
            for mode in self.modes:
                d = os.path.join(self.dir, mode)
                os.makedirs(d)
                _copy_sources(d)
                self.paths[mode] = d
                if mode == "compiled":
                    self._compiled(d)
        except BaseException:
            self.cleanup()
            raise
        self.build_s = time.time() - t0
        return self

    def _compiled(self, d):
        key = _refs_key(os.path.join(d, "xdeps", "refs.py"))
        cached = os.path.join(CACHE_DIR, key + ".so")
        so_name = None
        import sysconfig
        so_name = "refs" + sysconfig.get_config_var("EXT_SUFFIX")
        target = os.path.join(d, "xdeps", so_name)
        if os.environ.get("XV_NO_CACHE") != "1" and os.path.exists(cached):
            shutil.copy2(cached, target)
            os.utime(cached, None)
            self.cache_hit = True
            return
        so = _compile(d)
        self.cache_hit = False
        if os.environ.get("XV_NO_CACHE") != "1":
            try:
                os.makedirs(CACHE_DIR, exist_ok=True)
                tmp = cached + f".{os.getpid()}.tmp"
                shutil.copy2(so, tmp)
                os.replace(tmp, cached)
                _prune_cache()
            except OSError:
                pass

    def env(self, mode, hashseed=0, extra=None):
        e = dict(os.environ)
        here = os.path.dirname(os.path.dirname(os.path.abspath(__file__)))
        e["PYTHONPATH"] = self.paths[mode] + os.pathsep + here
        e["PYTHONHASHSEED"] = str(hashseed)
        e["XV_MODE"] = mode
        e["XV_SCRATCH_DIR"] = self.paths[mode]
        e["PYTHONDONTWRITEBYTECODE"] = "1"
        e["OMP_NUM_THREADS"] = "1"
        e["OPENBLAS_NUM_THREADS"] = "1"
        e["MKL_NUM_THREADS"] = "1"
        if extra:
            e.update(extra)
        return e

    def cleanup(self):
        if self.dir and not self.keep:
            shutil.rmtree(self.dir, ignore_errors=True)
        self.dir = None

    def __exit__(self, *exc):
        self.cleanup()
        return False


def assert_scratch_import():
    """Called inside a worker: the imported xdeps must be the scratch copy in
    the expected build mode."""
    import xdeps
    import xdeps.refs as refs
    want = os.environ["XV_SCRATCH_DIR"]
    got = os.path.dirname(os.path.dirname(os.path.abspath(xdeps.__file__)))
    if os.path.realpath(got) != os.path.realpath(want):
        raise BuildError(f"worker imported xdeps from {got}, expected {want}")
    mode = os.environ["XV_MODE"]
    if refs.is_cythonized() != (mode == "compiled"):
        raise BuildError(f"worker build mode mismatch: is_cythonized={refs.is_cythonized()} mode={mode}")
    return mode
