"""Real side of the manager harness: logging containers, world builders and
the execution of operations on a real xdeps Manager.

Importing this module does not import xdeps; `World` does (lazily) so that the
runner process, which must not import the library, can import op tables.
"""
import copy

from . import terms as T
from .terms import PObj, Funcs


class InjectedFault(Exception):
    pass


class InjectedArith(InjectedFault, ZeroDivisionError):
    """fault raised inside the EVALUATION of a task (a user function that divides by zero)"""


# the injected failure comes in the exception classes a container or a user function really raises (a handler somewhere in the
# update path that treats one of them specially must not change what the caller sees)
class InjectedKeyError(InjectedFault, KeyError):
    pass


class InjectedAttributeError(InjectedFault, AttributeError):
    pass


class InjectedValueError(InjectedFault, ValueError):
    pass


class InjectedTypeError(InjectedFault, TypeError):
    pass


class InjectedIndexError(InjectedFault, IndexError):
    pass


class InjectedStop(InjectedFault, StopIteration):
    pass


FAULT_CLASSES = {"plain": InjectedFault, "KeyError": InjectedKeyError, "AttributeError": InjectedAttributeError,
                 "ValueError": InjectedValueError, "TypeError": InjectedTypeError, "IndexError": InjectedIndexError,
                 "StopIteration": InjectedStop}


class Trace:
    """Shared by all logging containers of one world."""

    def __init__(self):
        self.events = []      # (path, value) of every completed write
        self.kinds = []       # kind of every fault point met since the last reset: 'w' container write, 'e' evaluation (user function)
        self.count = 0        # fault points (write attempts + evaluation points) since last reset
        self.fail_at = None   # raise InjectedFault on this attempt index
        self.fail_cls = None  # exception class of the injected write fault (default InjectedFault)
        self.calls = []       # FunctionTask action calls (task id)

    def reset(self, fail_at=None, fail_cls=None):
        self.fail_cls = fail_cls
        self.events = []
        self.kinds = []
        self.calls = []
        self.count = 0
        self.fail_at = fail_at

    def attempt(self, path, kind="w"):
        k = self.count
        self.count += 1
        self.kinds.append(kind)
        if self.fail_at is not None and k == self.fail_at:
            if kind == "e":
                raise InjectedArith(f"injected fault at point #{k}: evaluation of {T.path_str(path)}")
            raise (self.fail_cls or InjectedFault)(f"injected fault at write #{k} to {T.path_str(path)}")


class LogDict(dict):
    def __init__(self, data=(), path=None, trace=None):
        dict.__init__(self, data)
        self.__dict__["_p"] = path
        self.__dict__["_t"] = trace

    def __setitem__(self, k, v):
        t = self.__dict__.get("_t")
        if t is not None:
            p = self._p + (("i", k),)
            t.attempt(p)
            dict.__setitem__(self, k, v)
            t.events.append((p, v))
        else:
            dict.__setitem__(self, k, v)


class LogList(list):
    def __init__(self, data=(), path=None, trace=None):
        list.__init__(self, data)
        self._p = path
        self._t = trace

    def __setitem__(self, k, v):
        t = self.__dict__.get("_t")
        if t is not None:
            p = self._p + (("i", k),)
            t.attempt(p)
            list.__setitem__(self, k, v)
            t.events.append((p, v))
        else:
            list.__setitem__(self, k, v)


class LogObj:
    def __init__(self, data=None, path=None, trace=None):
        self.__dict__["_p"] = path
        self.__dict__["_t"] = trace
        if data:
            self.__dict__.update(data)

    def __setattr__(self, k, v):
        t = self.__dict__.get("_t")
        if t is not None and not k.startswith("_"):
            p = self._p + (("a", k),)
            t.attempt(p)
            self.__dict__[k] = v
            t.events.append((p, v))
        else:
            self.__dict__[k] = v


def wrap(plain, path, trace):
    """plain nested data -> logging containers rooted at `path`."""
    if isinstance(plain, dict):
        d = LogDict((), path, trace)
        for k, v in plain.items():
            dict.__setitem__(d, k, wrap(v, path + (("i", k),), trace))
        return d
    if isinstance(plain, list):
        l = LogList((), path, trace)
        for i, v in enumerate(plain):
            list.append(l, wrap(v, path + (("i", i),), trace))
        return l
    if isinstance(plain, PObj):
        o = LogObj(None, path, trace)
        for k, v in plain.__dict__.items():
            o.__dict__[k] = wrap(v, path + (("a", k),), trace)
        return o
    return plain


def snapshot(x):
    """logging containers -> plain nested data (copies)."""
    if isinstance(x, dict):
        return {k: snapshot(v) for k, v in x.items()}
    if isinstance(x, list):
        return [snapshot(v) for v in x]
    if isinstance(x, LogObj):
        return PObj(**{k: snapshot(v) for k, v in x.__dict__.items() if not k.startswith("_")})
    if isinstance(x, PObj):
        return PObj(**{k: snapshot(v) for k, v in x.__dict__.items()})
    return x


def retrace(x, trace):
    """Point every logging container below x at `trace` (after a copy)."""
    if isinstance(x, (LogDict, LogList, LogObj)):
        x.__dict__["_t"] = trace
    if isinstance(x, dict):
        for v in x.values():
            retrace(v, trace)
    elif isinstance(x, list):
        for v in x:
            retrace(v, trace)
    elif isinstance(x, LogObj):
        for k, v in x.__dict__.items():
            if not k.startswith("_"):
                retrace(v, trace)


def fmt_value(v):
    if isinstance(v, float) and v != v:
        return "float('nan')"
    return repr(v)


class World:
    """A real Manager over logging containers; executes operations.

    spec: dict with
       'data': plain nested initial data for root 's'
       'funs': {id: (reads paths, writes paths, kind)}   FunctionTask catalogue
       'knobs': {id: (src path, weights, target paths)}  LinearKnob catalogue
    """

    def __init__(self, spec, manager=None):
        import xdeps
        from xdeps.tasks import Manager
        self.xd = xdeps
        self.spec = spec
        self.trace = Trace()
        self.data = wrap(spec["data"], ("s",), self.trace)
        self.funcs = Funcs()
        self.funcs._trace = self.trace      # f.flaky(x) is a fault point of the evaluation kind
        self.funcs._data = self.data        # f.touch(x) leaves a mark in the data when it is evaluated
        self.m = Manager()
        if spec.get("refattr"):
            # container registered with Manager.refattr(): attribute access on the ref means item access on the container
            self.roots = {"s": self.m.refattr(self.data, "s"), "f": self.m.ref(self.funcs, "f")}
        else:
            self.roots = {"s": self.m.ref(self.data, "s"), "f": self.m.ref(self.funcs, "f")}
        self.fun_calls = {}
        self.knob_objs = {}

    @classmethod
    def from_manager(cls, spec, manager):
        """Wrap an existing manager (e.g. an unpickled copy) whose root
        containers are labelled 's' and 'f'."""
        self = cls.__new__(cls)
        import xdeps
        self.xd = xdeps
        self.spec = spec
        self.m = manager
        self.roots = dict(manager.containers)
        self.data = self.roots["s"]._owner
        self.funcs = self.roots["f"]._owner
        self.trace = self.data.__dict__.get("_t") or Trace()
        retrace(self.data, self.trace)
        self.fun_calls = {}
        self.knob_objs = {}
        return self

    # -- helpers ---------------------------------------------------------
    def ref(self, path):
        return T.ref_of(self.roots, path)

    def plain_roots(self):
        return {"s": snapshot(self.data), "f": self.funcs}

    def contents(self):
        return snapshot(self.data)

    def assign(self, path, value):
        parent = T.ref_of(self.roots, path[:-1])
        kind, key = path[-1]
        if kind == "i" and len(path) == 2 and self.spec.get("refattr") and isinstance(key, str) and key.isidentifier():
            setattr(parent, key, value)      # s.a = value on a refattr() container
        elif kind == "i":
            parent[key] = value
        else:
            setattr(parent, key, value)

    def _mk_action(self, fid):
        reads, writes, kind = self.spec["funs"][fid]
        data_roots = {"s": self.data, "f": self.funcs}
        trace = self.trace
        via_refs = self.spec.get("fun_via_refs")

        def action():
            trace.calls.append(fid)
            vals = [T.get_path(data_roots, p) for p in reads]
            outs = fun_semantics(kind, vals, len(writes))
            for p, v in zip(writes, outs):
                if via_refs:
                    # the action assigns its targets through the manager's references (the pattern of the repository's own
                    # test_function_task): a nested plain-value set_value per target
                    self.assign(p, v)
                else:
                    T.set_path(data_roots, p, v)
        return action

    # -- operations ------------------------------------------------------
    def apply(self, op):
        """Execute one operation through the public API. Returns None or a
        query answer. Exceptions propagate."""
        k = op[0]
        if k == "set":
            self.assign(op[1], op[2])
        elif k == "def":
            self.assign(op[1], T.to_ref(op[2], self.roots))
        elif k == "iop":
            r = self.ref(op[1])
            operand = T.to_ref(op[3], self.roots)
            res = T.INPLACE[op[2]](r, operand)
            self.assign(op[1], res)
        elif k == "unreg":
            self.m.unregister(self.ref(op[1]))
        elif k == "setc":
            fresh = wrap(op[2], op[1], self.trace)
            self.assign(op[1], fresh)
        elif k == "regfun":
            from xdeps.tasks import FunctionTask
            reads, writes, kind = self.spec["funs"][op[1]]
            task = FunctionTask(op[1], self._mk_action(op[1]),
                                {self.ref(p) for p in writes},
                                {self.ref(p) for p in reads})
            self.m.register(task)
            task.run()
        elif k == "regknob":
            from xdeps.tasks import LinearKnob
            src, weights, targets = self.spec["knobs"][op[1]]
            task = LinearKnob(op[1], self.ref(src), list(weights),
                              [self.ref(p) for p in targets])
            self.m.register(task)
            task.run()
            self.knob_objs[op[1]] = task
        elif k == "unregid":
            self.m.unregister(op[1])
        elif k == "fsetset":
            # first attempt with a fault injected at write #op[3] (the exception is caught by the caller), then the repeat
            self.trace.reset(fail_at=op[3])
            try:
                self.assign(op[1], op[2])
            except InjectedFault:
                pass
            self.trace.reset()
            self.assign(op[1], op[2])
        elif k == "export":
            # another manager copies this manager's expressions (a query on this one; it may fill caches here)
            import xdeps
            other = xdeps.Manager()
            other.ref(snapshot(self.data), "s")
            other.ref(self.funcs, "f")
            other.copy_expr_from(self.m, "s")
        elif k == "callfun":
            # a function generated for several inputs, called once: all inputs are written, then everything downstream runs once
            fn = self.m.gen_fun("fn", **{f"a{i}": self.ref(L) for i, L in enumerate(op[1])})
            fn(**{f"a{i}": v for i, v in enumerate(op[2])})
        elif k == "genfun":
            # generating a setter function is a query: it must not change anything (it may fill caches)
            self.m.gen_fun("fn", **{f"a{i}": self.ref(L) for i, L in enumerate(op[1])})
        elif k == "refresh":
            self.m.refresh()
        elif k == "cleanup":
            self.m.cleanup()
        elif k == "verify":
            self.m.verify()
        elif k == "freeze":
            self.m.freeze_tree()
        elif k == "unfreeze":
            self.m.unfreeze_tree()
        elif k == "copyfrom":
            src = World(self.spec)
            for path, term in op[1]:
                src.apply(("def", path, term))
            self.m.copy_expr_from(src.m, "s", overwrite=op[2])
        elif k == "load":
            self.m.load([(T.path_str(a), T.show(b)) for a, b in op[1]], overwrite=op[2])
        else:
            raise ValueError(f"unknown op {op!r}")


def fun_semantics(kind, vals, nout):
    """Pure semantics of the FunctionTask catalogue (shared with the model)."""
    if kind == "sum":
        s = sum(vals)
        return [s + i for i in range(nout)]
    if kind == "prod":
        p = 1
        for v in vals:
            p *= v
        return [p - i for i in range(nout)]
    raise ValueError(kind)


def op_str(op):
    k = op[0]
    if k == "set":
        return f"{T.path_str(op[1])} = {fmt_value(op[2])}"
    if k == "def":
        return f"{T.path_str(op[1])} = {T.show(op[2])}"
    if k == "iop":
        return f"{T.path_str(op[1])} {T.BIN_SYM[op[2]]}= {T.show(op[3])}"
    if k == "unreg":
        return f"m.unregister({T.path_str(op[1])})"
    if k == "setc":
        return f"{T.path_str(op[1])} = <fresh container {op[2]!r}>"
    if k in ("regfun", "regknob", "unregid"):
        return f"{k}({op[1]!r})"
    if k == "copyfrom":
        return (f"m.copy_expr_from(<manager with {[(T.path_str(a) + ' = ' + T.show(b)) for a, b in op[1]]}>, 's', "
                f"overwrite={op[2]})")
    if k == "load":
        return f"m.load({[(T.path_str(a), T.show(b)) for a, b in op[1]]!r}, overwrite={op[2]})"
    if k in ("freeze", "unfreeze"):
        return f"m.{k}_tree()"
    if k == "fsetset":
        return f"{T.path_str(op[1])} = {fmt_value(op[2])}   # first attempt fails at container write #{op[3]} (caught), then repeated"
    if k == "export":
        return "other_manager.copy_expr_from(m, 's')   # this manager is the source"
    if k == "callfun":
        return ("m.gen_fun('fn', " + ", ".join(f"a{i}={T.path_str(L)}" for i, L in enumerate(op[1])) + ")(" +
                ", ".join(fmt_value(v) for v in op[2]) + ")")
    if k == "genfun":
        return "m.gen_fun('fn', " + ", ".join(f"a{i}={T.path_str(L)}" for i, L in enumerate(op[1])) + ")"
    return f"m.{k}()"


def snippet(spec, hist, note=""):
    """Stand-alone reproduction script (plain xdeps calls)."""
    lines = [
        "import math, xdeps",
        "from xdeps.tasks import Manager, FunctionTask, LinearKnob",
        "class F:",
        "    def dbl(self, x): return 2 * x",
        "    def total(self, c): return sum(c.values()) if isinstance(c, dict) else sum(c)",
        "    def pick(self, x, k=1): return x * k + 1",
        "    def hyp(self, x, y): return x * x + y * y",
        "    def kw(self, *a, **k): return (tuple(a), tuple(k.items()))",
        "    def size(self, c): return len(c)",
        "    def pair(self, x): return (x, x * 2)",
        "    def scale(self, x, unit): return x * {'m': 1, 'k': 1000}[unit]",
        "class O:",
        "    def __init__(self, **kw): self.__dict__.update(kw)",
        "PObj = O",
        f"data = {spec['data']!r}",
        "m = Manager(); s = m.ref(data, 's'); f = m.ref(F(), 'f')",
    ]
    for op in hist:
        k = op[0]
        if k in ("set", "def", "iop", "unreg"):
            lines.append(op_str(op))
        elif k == "setc":
            lines.append(f"{T.path_str(op[1])} = {op[2]!r}")
        elif k == "regknob":
            src, w, tg = spec["knobs"][op[1]]
            lines.append(f"k = LinearKnob({op[1]!r}, {T.path_str(src)}, {list(w)!r}, "
                         f"[{', '.join(T.path_str(p) for p in tg)}]); m.register(k); k.run()")
        elif k == "regfun":
            reads, writes, kind = spec["funs"][op[1]]
            lines.append(f"# FunctionTask {op[1]!r}: {kind} of {[T.path_str(p) for p in reads]} "
                         f"-> {[T.path_str(p) for p in writes]} (action writes the containers directly)")
        else:
            lines.append(op_str(op))
    lines.append("print(data)")
    if note:
        lines.append("# " + note.replace("\n", "\n# "))
    return "\n".join(lines)
