"""Level-synchronous explicit-state search over operation histories of the
real implementation.

Runs inside one *configuration* process (build mode + hash seed fixed by the
environment).  A state is the history that reaches it; it is rebuilt by
replay because live objects (compiled refs, numpy arrays, lazy caches) do not
copy.  States are merged on the digest of their full concrete canonical form,
globally across worker processes (fork pool), so merged states have the same
futures by construction.

A `system` object provides

    universe            list of operations (JSON-able tuples)
    expand(hist)        -> dict(children=[(digest, op_index)], transitions=int,
                                 issues=[...], stats={...}, leaves=int)
      executes, for every enabled operation, a fresh replay of hist followed
      by the operation on the real objects, compares with the model, checks
      the invariants and returns the canonical digest of each child state.
    root_digest()       digest of the initial state
"""
import multiprocessing as mp
import os
import time

_SYSTEM = None


def _init(system):
    global _SYSTEM
    _SYSTEM = system


def _work(chunk):
    out = []
    for hist in chunk:
        out.append((hist, _SYSTEM.expand(hist)))
    return out


def merge_stats(into, st):
    for k, v in st.items():
        if isinstance(v, (int, float)):
            into[k] = into.get(k, 0) + v
        elif isinstance(v, dict):
            merge_stats(into.setdefault(k, {}), v)
        elif isinstance(v, (set, frozenset)):
            s = into.setdefault(k, set())
            if len(s) < 100000:
                s |= v
        elif isinstance(v, list):
            l = into.setdefault(k, [])
            if len(l) < 12:
                l.extend(v[: 12 - len(l)])


def bfs(system, depth, nproc=None, time_cap=None, max_issues=200, chunk=24):
    t0 = time.time()
    nproc = nproc or max(1, (os.cpu_count() or 2))
    seen = {system.root_digest()}
    frontier = [()]
    stats = {}
    issues = []
    n_known = n_viol = 0
    transitions = 0
    leaves = 0
    completed_depth = 0
    per_depth = []
    exhaustive = True
    pool = None
    if nproc > 1:
        ctx = mp.get_context("fork")
        _init(system)
        pool = ctx.Pool(nproc)
    try:
        for d in range(1, depth + 1):
            nxt = []
            chunks = [frontier[i:i + chunk] for i in range(0, len(frontier), chunk)]
            it = pool.imap_unordered(_work, chunks) if pool else map(_work_local(system), chunks)
            capped = False
            level_tr = 0
            for res in it:
                for hist, r in res:
                    level_tr += r["transitions"]
                    leaves += r.get("leaves", 0)
                    merge_stats(stats, r.get("stats", {}))
                    # listed known findings must never crowd out violations: separate budgets
                    for it in r.get("issues", ()):
                        if it.get("kind") == "known":
                            if n_known < max_issues:
                                issues.append(it)
                            n_known += 1
                        else:
                            if n_viol < max_issues:
                                issues.append(it)
                            else:
                                stats["violations_not_listed"] = stats.get("violations_not_listed", 0) + 1
                            n_viol += 1
                    for dg, opi in r["children"]:
                        if dg not in seen:
                            seen.add(dg)
                            if d < depth:
                                nxt.append(hist + (opi,))
                if time_cap is not None and time.time() - t0 > time_cap:
                    capped = True
                    break
            transitions += level_tr
            per_depth.append({"depth": d, "frontier": len(frontier), "transitions": level_tr,
                              "new_states": len(nxt) if d < depth else None})
            if capped:
                exhaustive = False
                if pool:
                    pool.terminate()
                    pool = None
                break
            completed_depth = d
            if d == depth:
                # every transition of the last level ends a maximal history
                leaves += level_tr
            frontier = nxt
            if not frontier:
                break
    finally:
        if pool:
            pool.close()
            pool.join()
    return {
        "states": len(seen),
        "transitions": transitions,
        "traces": leaves,
        "max_depth": completed_depth,
        "depth_bound": depth,
        "exhaustive": exhaustive,
        "per_depth": per_depth,
        "stats": stats,
        "issues": issues,
        "known_occurrences": n_known,
        "violation_occurrences": n_viol,
        "wall_s": time.time() - t0,
    }


def _work_local(system):
    def f(chunk):
        return [(hist, system.expand(hist)) for hist in chunk]
    return f
