"""Term AST shared by the reference models and the harnesses.

A Term is a nested tuple; it can be (a) turned into a real xdeps expression
over refs, (b) evaluated on plain data with the genuine Python operators,
(c) printed, (d) analysed for the locations it reads.

  ('loc', path)                       path = (label, step, step, ...)
                                      step = ('i', key) | ('a', name)
  ('lit', value)
  ('bin', opname, lhs, rhs)
  ('un', opname, arg)
  ('bi', name, arg, params)           abs/round/divmod/trunc/floor/ceil
  ('call', fname, args, kwargs)       f.<fname>(*args, **dict(kwargs))
  ('dyn', base_path, key_term)        base[<key>] with a computed key
  ('cmp', name, lhs, rhs)             deferred equality: lhs._eq(rhs) / _neq
  ('L', value)                        an explicit LiteralExpr node (refs.LiteralExpr(value))
  ('ix', base_term, key)              item of an expression RESULT: (<base>)[key]   (computed owner)
  ('at', base_term, name)             attribute of an expression result: (<base>).name
"""
import math
import operator

BIN = {
    "add": operator.add, "sub": operator.sub, "mul": operator.mul,
    "matmul": operator.matmul, "truediv": operator.truediv,
    "floordiv": operator.floordiv, "mod": operator.mod, "pow": operator.pow,
    "and": operator.and_, "or": operator.or_, "xor": operator.xor,
    "lt": operator.lt, "le": operator.le, "ge": operator.ge, "gt": operator.gt,
    "rshift": operator.rshift, "lshift": operator.lshift,
}
BIN_SYM = {
    "add": "+", "sub": "-", "mul": "*", "matmul": "@", "truediv": "/",
    "floordiv": "//", "mod": "%", "pow": "**", "and": "&", "or": "|",
    "xor": "^", "lt": "<", "le": "<=", "ge": ">=", "gt": ">", "rshift": ">>",
    "lshift": "<<", "eq": "==", "ne": "!=",
}
INPLACE = {
    "add": operator.iadd, "sub": operator.isub, "mul": operator.imul,
    "matmul": operator.imatmul, "truediv": operator.itruediv,
    "floordiv": operator.ifloordiv, "mod": operator.imod, "pow": operator.ipow,
    "and": operator.iand, "or": operator.ior, "xor": operator.ixor,
    "rshift": operator.irshift, "lshift": operator.ilshift,
}
GUARDED = ("truediv", "floordiv", "mod")
UN = {"neg": operator.neg, "pos": operator.pos, "invert": operator.invert}
UN_SYM = {"neg": "-", "pos": "+", "invert": "~"}
BUILTINS = {
    "abs": abs, "round": round, "divmod": divmod,
    "trunc": math.trunc, "floor": math.floor, "ceil": math.ceil,
}
NAN = float("nan")


class Funcs:
    """Function container used as the 'f' root (picklable, stateless)."""

    def dbl(self, x):
        return 2 * x

    def total(self, c):
        if isinstance(c, dict):
            return sum(c.values())
        return sum(c)

    def pick(self, x, k=1):
        return x * k + 1

    def hyp(self, x, y):
        return x * x + y * y

    def flaky(self, x):
        """a user function that can fail while an expression is being EVALUATED (fault point of the harness)"""
        t = self.__dict__.get("_trace")
        if t is not None:
            t.attempt(("f", ("a", "flaky")), "e")
        return x + 1

    def touch(self, x):
        """a user function with an effect on the data: whoever evaluates an expression containing it leaves a mark"""
        d = self.__dict__.get("_data")
        if d is not None:
            dict.__setitem__(d, "touched", dict.get(d, "touched", 0) + 1)
        return x

    def scale(self, x, unit):
        return x * {"m": 1, "k": 1000}[unit]

    def pair(self, x):
        return (x, x * 2)

    def size(self, c):
        return len(c)

    def kw(self, *args, **kwargs):
        """reports its arguments exactly as received (keyword ORDER included)"""
        return (tuple(args), tuple(kwargs.items()))

    def __eq__(self, other):
        return type(other) is Funcs

    def __hash__(self):
        return 17


def loc(*path):
    return ("loc", tuple(path))


def lit(v):
    return ("lit", v)


# ---------------------------------------------------------------- plain data
class PObj:
    """Plain attribute container for the model side."""

    def __init__(self, **kw):
        self.__dict__.update(kw)

    def __eq__(self, other):
        return type(other) is PObj and self.__dict__ == other.__dict__

    def __repr__(self):
        return "PObj(%s)" % ", ".join(f"{k}={v!r}" for k, v in self.__dict__.items())


def get_path(roots, path):
    cur = roots[path[0]]
    for kind, key in path[1:]:
        cur = cur[key] if kind == "i" else getattr(cur, key)
    return cur


def set_path(roots, path, value):
    cur = roots[path[0]]
    for kind, key in path[1:-1]:
        cur = cur[key] if kind == "i" else getattr(cur, key)
    kind, key = path[-1]
    if kind == "i":
        cur[key] = value
    else:
        setattr(cur, key, value)


def ev(t, roots):
    """Evaluate a term on plain data with the genuine Python operators.
    Division, floor division and modulo by zero give NaN (the documented
    deviation); every other exception propagates."""
    k = t[0]
    if k == "loc":
        return get_path(roots, t[1])
    if k in ("lit", "L"):
        return t[1]
    if k == "bin":
        a = ev(t[2], roots)
        b = ev(t[3], roots)
        if t[1] in GUARDED:
            try:
                return BIN[t[1]](a, b)
            except ZeroDivisionError:
                return NAN
        return BIN[t[1]](a, b)
    if k == "cmp":
        a = ev(t[2], roots)
        b = ev(t[3], roots)
        return (a == b) if t[1] == "eq" else (a != b)
    if k == "un":
        return UN[t[1]](ev(t[2], roots))
    if k == "bi":
        a = ev(t[2], roots)
        ps = [ev(p, roots) for p in t[3]]
        return BUILTINS[t[1]](a, *ps)
    if k == "call":
        f = getattr(roots["f"], t[1])
        args = [ev(a, roots) for a in t[2]]
        kwargs = {n: ev(v, roots) for n, v in t[3]}
        return f(*args, **kwargs)
    if k == "dyn":
        base = get_path(roots, t[1])
        return base[ev(t[2], roots)]
    if k == "ix":
        return ev(t[1], roots)[t[2]]
    if k == "at":
        return getattr(ev(t[1], roots), t[2])
    raise ValueError(f"bad term {t!r}")


def ref_of(rroots, path):
    """Real ref for a location path; rroots maps label -> top-level Ref."""
    r = rroots[path[0]]
    for kind, key in path[1:]:
        r = r[key] if kind == "i" else getattr(r, key)
    return r


def to_ref(t, rroots):
    """Build the real deferred expression the way a user would write it."""
    k = t[0]
    if k == "loc":
        return ref_of(rroots, t[1])
    if k == "lit":
        return t[1]
    if k == "L":
        import xdeps.refs as _refs
        return _refs.LiteralExpr(t[1])
    if k == "bin":
        return BIN[t[1]](to_ref(t[2], rroots), to_ref(t[3], rroots))
    if k == "cmp":
        a = to_ref(t[2], rroots)
        b = to_ref(t[3], rroots)
        return a._eq(b) if t[1] == "eq" else a._neq(b)
    if k == "un":
        return UN[t[1]](to_ref(t[2], rroots))
    if k == "bi":
        a = to_ref(t[2], rroots)
        ps = [to_ref(p, rroots) for p in t[3]]
        return BUILTINS[t[1]](a, *ps)
    if k == "call":
        f = getattr(rroots["f"], t[1])
        args = [to_ref(a, rroots) for a in t[2]]
        kwargs = {n: to_ref(v, rroots) for n, v in t[3]}
        return f(*args, **kwargs)
    if k == "dyn":
        return ref_of(rroots, t[1])[to_ref(t[2], rroots)]
    if k == "ix":
        return to_ref(t[1], rroots)[t[2]]
    if k == "at":
        return getattr(to_ref(t[1], rroots), t[2])
    raise ValueError(f"bad term {t!r}")


def has_ref(t):
    k = t[0]
    if k in ("loc", "dyn"):
        return True
    if k == "lit":
        return False
    if k == "L":
        return True      # an expression node, although it reads nothing
    if k in ("bin", "cmp"):
        return has_ref(t[2]) or has_ref(t[3])
    if k == "un":
        return has_ref(t[2])
    if k == "bi":
        return has_ref(t[2]) or any(has_ref(p) for p in t[3])
    if k == "call":
        return True  # the callee f.<name> is itself a ref
    if k in ("ix", "at"):
        return has_ref(t[1])
    return False


def path_str(path):
    s = path[0]
    for kind, key in path[1:]:
        s += f"[{key!r}]" if kind == "i" else f".{key}"
    return s


def show(t):
    """Python source a user would write (not the library's printed form)."""
    k = t[0]
    if k == "loc":
        return path_str(t[1])
    if k == "lit":
        return repr(t[1])
    if k == "L":
        return f"LiteralExpr({t[1]!r})"
    if k == "bin":
        return f"({show(t[2])} {BIN_SYM[t[1]]} {show(t[3])})"
    if k == "cmp":
        return f"{show(t[2])}.{'_eq' if t[1] == 'eq' else '_neq'}({show(t[3])})"
    if k == "un":
        return f"({UN_SYM[t[1]]}{show(t[2])})"
    if k == "bi":
        name = t[1] if t[1] in ("abs", "round", "divmod") else "math." + t[1]
        return f"{name}({', '.join([show(t[2])] + [show(p) for p in t[3]])})"
    if k == "call":
        args = [show(a) for a in t[2]] + [f"{n}={show(v)}" for n, v in t[3]]
        return f"f.{t[1]}({', '.join(args)})"
    if k == "dyn":
        return f"{path_str(t[1])}[{show(t[2])}]"
    if k == "ix":
        return f"{show(t[1])}[{t[2]!r}]"
    if k == "at":
        return f"{show(t[1])}.{t[2]}"
    raise ValueError(t)


def reads(t, out=None):
    """Exact locations a term reads (paths; a computed key reads the whole
    base container and whatever the key expression reads)."""
    if out is None:
        out = set()
    k = t[0]
    if k == "loc":
        out.add(t[1])
    elif k in ("bin", "cmp"):
        reads(t[2], out)
        reads(t[3], out)
    elif k == "un":
        reads(t[2], out)
    elif k == "bi":
        reads(t[2], out)
        for p in t[3]:
            reads(p, out)
    elif k == "call":
        for a in t[2]:
            reads(a, out)
        for _, v in t[3]:
            reads(v, out)
    elif k == "dyn":
        out.add(t[1])
        reads(t[2], out)
    elif k in ("ix", "at"):
        reads(t[1], out)
    return out


def closure(path):
    """Non-top-level prefixes of a path, the path included (the owner chain
    the library reports as structural dependencies)."""
    return {path[:n] for n in range(2, len(path) + 1)}


def deps(t, out=None):
    """Documented dependency set of a term (C05): every item/attribute
    location occurring in it, owners and computed keys included."""
    if out is None:
        out = set()
    k = t[0]
    if k == "loc":
        out |= closure(t[1])
    elif k in ("bin", "cmp"):
        deps(t[2], out)
        deps(t[3], out)
    elif k == "un":
        deps(t[2], out)
    elif k == "bi":
        deps(t[2], out)
        for p in t[3]:
            deps(p, out)
    elif k == "call":
        out.add(("f", ("a", t[1])))
        for a in t[2]:
            deps(a, out)
        for _, v in t[3]:
            deps(v, out)
    elif k == "dyn":
        out |= closure(t[1])
        deps(t[2], out)
        out.add(("dyn", t[1], t[2]))
    elif k in ("ix", "at"):
        deps(t[1], out)
        out.add((k, t[1], t[2]))     # the item/attribute ref over the computed owner is itself a reported dependency
    return out


def overlap(p, q):
    """Two locations overlap when equal or when one encloses the other."""
    n = min(len(p), len(q))
    return p[:n] == q[:n]


def same(a, b):
    """Type-aware, NaN-aware structural equality of plain data."""
    if type(a) is not type(b):
        return False
    if isinstance(a, float):
        return a == b or (a != a and b != b)
    if isinstance(a, dict):
        return a.keys() == b.keys() and all(same(a[k], b[k]) for k in a)
    if isinstance(a, (list, tuple)):
        return len(a) == len(b) and all(same(x, y) for x, y in zip(a, b))
    if isinstance(a, PObj):
        return same(a.__dict__, b.__dict__)
    if isinstance(a, complex):
        return same(a.real, b.real) and same(a.imag, b.imag)
    try:
        import numpy as np
        if isinstance(a, np.ndarray):
            return a.dtype == b.dtype and a.shape == b.shape and bool(
                np.all((a == b) | ((a != a) & (b != b))))
        if isinstance(a, np.generic):
            return bool(a == b) or bool(a != a and b != b)
    except ImportError:
        pass
    return a == b
