"""Exhaustive enumerators (engine E): finite products / term trees executed
completely, with exact counting.  No random generation anywhere."""
import itertools
import multiprocessing as mp
import time

from . import terms as T
from .explore import merge_stats

_FUNC = None


def _call(chunk):
    return _FUNC(chunk)


def pmap(func, chunks, nproc):
    """Run func(chunk) -> dict over all chunks (fork pool); merge the dicts:
    ints add, 'issues'/'samples' lists extend (bounded), sets union."""
    global _FUNC
    _FUNC = func
    out = {}
    t0 = time.time()
    if nproc > 1 and len(chunks) > 1:
        pool = mp.get_context("fork").Pool(nproc)
        it = pool.imap_unordered(_call, chunks)
    else:
        pool = None
        it = map(func, chunks)
    issues = []
    for r in it:
        iss = r.pop("issues", [])
        if len(issues) < 400:
            issues.extend(iss)
        else:
            out["issues_dropped"] = out.get("issues_dropped", 0) + len(iss)
        merge_stats(out, r)
    if pool:
        pool.close()
        pool.join()
    out["issues"] = issues
    out["wall_s"] = time.time() - t0
    return out


def pmap_collect(func, chunks, nproc):
    """like pmap but returns the list of per-chunk results (any order), unmerged"""
    global _FUNC
    _FUNC = func
    if nproc > 1 and len(chunks) > 1:
        pool = mp.get_context("fork").Pool(nproc)
        try:
            return list(pool.imap_unordered(_call, chunks))
        finally:
            pool.close()
            pool.join()
    return [func(c) for c in chunks]


def chunked(seq, n):
    seq = list(seq)
    return [seq[i:i + n] for i in range(0, len(seq), n)]


BINOPS = [("bin", k) for k in T.BIN] + [("cmp", "eq"), ("cmp", "ne")]
UNOPS = [("un", k) for k in T.UN]


def mk_bin(op, a, b):
    return (op[0], op[1], a, b)


def depth1(ops, leaves):
    """op(x, y) over leaves with at least one ref-bearing operand."""
    for op in ops:
        for a in leaves:
            for b in leaves:
                if op[0] == "cmp" and not T.has_ref(a):
                    continue  # a plain number has no ._eq(): not expressible
                if T.has_ref(a) or T.has_ref(b):
                    yield mk_bin(op, a, b)


def depth2_linear(ops, inner, leaves):
    """op(inner, leaf) and op(leaf, inner)."""
    for op in ops:
        for i in inner:
            for l in leaves:
                yield mk_bin(op, i, l)
                yield mk_bin(op, l, i)


def outcome(fn):
    """(kind, value) where kind is 'ok' or the exception type name."""
    try:
        return ("ok", fn())
    except RecursionError:
        raise
    except Exception as e:  # noqa
        return (type(e).__name__, None)
