"""Optimizer harness shared by C09, C10, C15, C16: deterministic merit
function families owned by the harness (so "evaluate independently at these
knob values" never touches the optimizer), a knob container that records every
write, an Action with a call counter and a one-shot fault, and helpers to read
the optimizer's log.

A problem spec is a JSON-able dict:

  fam      family name (see FAMILIES)            nk, nt follow from it
  x0       start knob values
  limits   None | list of (lo, hi)
  kw       knob weights (None = unit)
  tw       target weights (None = unit)
  tol      per-target tolerance (float or list)
  tshift   added to every target value (moves the solution / makes it unreachable)
  max_step None | list (None entries allowed)
  steps    finite-difference step (float)
  nsm      n_steps_max
  dv, dt   persistently disabled knob / target indices (after construction)
"""
import math

# ------------------------------------------------------------------ families
# each: (nk, nt, f(k) -> list, solution k* (target values are f(k*)), note)


def _lin(A):
    def f(k):
        return [sum(a * x for a, x in zip(row, k)) for row in A]
    return f


FAMILIES = {}


def fam(name, nk, nt, f, ksol, targets=None):
    FAMILIES[name] = {"nk": nk, "nt": nt, "f": f, "ksol": ksol,
                      "targets": targets if targets is not None else f(ksol)}


fam("lin1", 1, 1, _lin([[2.0]]), [1.5])
fam("lin2", 2, 2, _lin([[2.0, 1.0], [1.0, 3.0]]), [1.0, -0.5])
fam("lin2skew", 2, 2, _lin([[1.0, 4.0], [-2.0, 1.0]]), [0.25, 0.75])
fam("lin3", 3, 3, _lin([[2.0, 1.0, 0.0], [1.0, 3.0, 1.0], [0.0, 1.0, 4.0]]), [0.5, -1.0, 0.25])
fam("lin_tall", 2, 3, _lin([[1.0, 0.0], [0.0, 1.0], [1.0, 1.0]]), [0.5, 0.25])                      # consistent, over-determined
fam("lin_tall_inc", 2, 3, _lin([[1.0, 0.0], [0.0, 1.0], [1.0, 1.0]]), [0.5, 0.25], [0.5, 0.25, 2.0])   # inconsistent
# two readings of the same quantity with different targets: cannot be matched; the least-squares point is k = 2
fam("same_twice", 1, 2, lambda k: [k[0], k[0]], [2.0], [1.0, 3.0])
fam("lin_wide", 3, 2, _lin([[1.0, 2.0, 0.0], [0.0, 1.0, 1.0]]), [0.5, 0.25, -0.5])                  # under-determined
fam("lin_rankdef", 2, 2, _lin([[1.0, 2.0], [2.0, 4.0]]), [0.5, 0.25])                                # rank 1, consistent
fam("lin_rankdef_inc", 2, 2, _lin([[1.0, 2.0], [2.0, 4.0]]), [0.5, 0.25], [1.0, 3.0])                # rank 1, inconsistent
fam("lin4x5", 4, 5, _lin([[1.0, 0.0, 0.0, 1.0], [0.0, 2.0, 0.0, 0.0], [0.0, 0.0, 1.0, 0.0], [1.0, 0.0, 0.0, -1.0],
                          [0.0, 1.0, 1.0, 0.0]]), [0.5, -0.25, 0.75, 0.125])
fam("sepquad", 2, 2, lambda k: [k[0] * k[0], k[1] * k[1] + k[1]], [1.5, 0.5])
fam("quad3", 3, 3, lambda k: [k[0] * k[0], k[1] * k[1] + k[1], k[2] * k[2] + 2.0 * k[2]], [1.5, 0.5, 0.25])
fam("dblroot", 1, 1, lambda k: [(k[0] - 0.5) ** 2], [0.5])                                           # Newton converges linearly
fam("coupled", 2, 2, lambda k: [k[0] * k[0] + k[1], k[0] + k[1] * k[1]], [0.75, 0.5])
fam("trig", 2, 2, lambda k: [math.sin(k[0]) + 0.5 * k[1], math.cos(k[1]) + 0.25 * k[0]], [0.4, 0.3])
fam("cubic", 1, 1, lambda k: [k[0] ** 3 - 2.0 * k[0] + 2.0], [-1.7692923542386314], [0.0])              # Newton 2-cycle 0 <-> 1
fam("atan", 1, 1, lambda k: [math.atan(k[0])], [0.0])                                               # Newton overshoots for |x| > 1.39
fam("bump", 2, 2, lambda k: [math.atan(k[0]) + 0.1 * k[1], k[1] ** 3 - 2.0 * k[1] + 2.0 + 0.1 * k[0]], [0.0, 0.0], [0.0, 0.0])
fam("posq", 2, 2, lambda k: [k[0] * k[0] + 1.0, k[1] * k[1] + 2.0 + 0.5 * k[0]], [1.5, 0.5])     # strictly positive outputs (optimize_log)
# flat at the start, exploding along the Newton direction: every sub-step of the first Newton step is worse than the start
fam("cliff", 1, 2, lambda k: [5.0 + 4e6 * k[0] * k[0], 0.02 - k[0]], [0.0], [0.0, 0.0])
fam("ident2", 2, 2, lambda k: [k[0], k[1]], [-10.0, -10.0])
fam("ident3", 3, 3, lambda k: [k[0], k[1], k[2]], [8.0, -6.0, 3.0])


def spec_defaults(spec):
    s = {"limits": None, "kw": None, "tw": None, "tol": 1e-9, "tshift": 0.0, "max_step": None, "steps": 1e-6,
         "nsm": 20, "dv": (), "dt": (), "restore": True, "v_inactive": (), "enable_v": ()}
    s.update(spec)
    return s


class KnobDict(dict):
    """knob container; records every write (key, value)"""

    def __init__(self, *a):
        dict.__init__(self, *a)
        self.writes = []

    def __setitem__(self, k, v):
        self.writes.append((k, v))
        dict.__setitem__(self, k, v)


class InjectedActionFault(Exception):
    pass


class Problem:
    """Builds the real Optimize for a spec and keeps the harness-side truth."""

    def __init__(self, spec, alt_target=None):
        import xdeps as xd
        from xdeps.optimize.optimize import Optimize, Vary, Target, Action
        self.spec = s = spec_defaults(spec)
        F = FAMILIES[s["fam"]]
        self.F = F
        nk, nt = F["nk"], F["nt"]
        self.nk, self.nt = nk, nt
        # names / tags may be chosen so that one is a prefix of another (k1 / k10)
        self.kn = list(s.get("knob_names") or [f"k{i}" for i in range(nk)])
        self.vtags = list(s.get("vary_tags") or [f"v{i}" for i in range(nk)])
        self.ttags = list(s.get("target_tags") or [f"t{i}" for i in range(nt)])
        self.knobs = KnobDict({self.kn[i]: float(s["x0"][i]) for i in range(nk)})
        self.calls = 0
        self.fail_at = None
        self.alt_target = alt_target       # (index, function) : differential twin for a disabled target
        prob = self

        class Act(Action):
            def run(self_inner):
                n = prob.calls
                prob.calls += 1
                if prob.fail_at is not None and n == prob.fail_at:
                    raise InjectedActionFault(f"injected fault at action call #{n}")
                vals = prob.f(prob.knob_values())
                return {i: vals[i] for i in range(nt)}

        self.action = Act()
        tol = s["tol"]
        self.tols = [tol[i] if isinstance(tol, (list, tuple)) else tol for i in range(nt)]
        self.tvals = [F["targets"][i] + s["tshift"] for i in range(nt)]
        if alt_target is not None:
            self.tvals[alt_target[0]] = alt_target[2]
        self.tw = [1.0 if s["tw"] is None else s["tw"][i] for i in range(nt)]
        self.kw = [1.0 if s["kw"] is None else s["kw"][i] for i in range(nk)]
        self.limits = s["limits"]
        self.max_step = s["max_step"]
        vary = []
        # where the limits / finite-difference steps of a knob come from: given to Vary explicitly, or completed from the
        # container's vary_default table (both, only the limits, only the step)
        src = s.get("lim_source", "explicit")
        if src != "explicit":
            self.knobs.vary_default = {self.kn[i]: {"limits": None if s["limits"] is None else s["limits"][i], "step": s["steps"]}
                                       for i in range(nk)}
        for i in range(nk):
            lim_arg = None if (s["limits"] is None or src in ("defaults_both", "defaults_limits")) else s["limits"][i]
            step_arg = None if src in ("defaults_both", "defaults_step") else s["steps"]
            vary.append(Vary(self.kn[i], self.knobs, limits=lim_arg,
                             step=step_arg, weight=None if s["kw"] is None else s["kw"][i],
                             max_step=None if s["max_step"] is None else s["max_step"][i], tag=self.vtags[i],
                             active=(i not in s["v_inactive"])))
        targets = [Target(i, self.tvals[i], tol=self.tols[i], weight=None if s["tw"] is None else s["tw"][i],
                          action=self.action, tag=self.ttags[i], optimize_log=(i in s.get("optlog", ()))) for i in range(nt)]
        self.opt = Optimize(vary, targets, n_steps_max=s["nsm"], restore_if_fail=s["restore"], show_call_counter=False,
                            verbose=False, solver_options=s.get("solver_options", {}),
                            **({"check_limits": s["check_limits"]} if "check_limits" in s else {}))
        if s["dv"]:
            self.opt.disable(vary=list(s["dv"]))
        if s["dt"]:
            self.opt.disable(target=list(s["dt"]))
        if s["enable_v"]:
            self.opt.enable(vary=list(s["enable_v"]))

    # -- harness-side truth
    def f(self, k):
        vals = list(self.F["f"](k))
        if self.alt_target is not None:
            vals[self.alt_target[0]] = self.alt_target[1](k)
        return vals

    def knob_values(self):
        return [dict.__getitem__(self.knobs, self.kn[i]) for i in range(self.nk)]

    def vary_flags(self):
        return [bool(v.active) for v in self.opt.vary]          # public container of Vary objects

    def target_flags(self):
        return [bool(t.active) for t in self.opt.targets]

    def within_tol(self, k, tflags=None):
        """independent evaluation: every active target within its tolerance"""
        vals = self.f(k)
        tflags = self.target_flags() if tflags is None else tflags
        return all((not a) or abs(v - t) < tol for v, t, tol, a in zip(vals, self.tvals, self.tols, tflags))

    def penalty(self, k, tflags):
        vals = self.f(k)
        return math.sqrt(sum(((v - t) * w) ** 2 for v, t, w, a in zip(vals, self.tvals, self.tw, tflags) if a))

    def log_rows(self):
        """the optimizer's log as plain rows, read through the public log() Table"""
        rows = self.log_table_rows()
        for r in rows:
            r.setdefault("tol_met", None)
            r.setdefault("hit_limits", None)
        return rows

    def raw_log_rows(self):
        """the same read from the private lists (only used for a cross-check; None when the private layout is different)"""
        lg = getattr(self.opt, "_log", None)
        if not isinstance(lg, dict) or "penalty" not in lg:
            return None
        n = len(lg["penalty"])
        rows = []
        for i in range(n):
            rows.append({"penalty": float(lg["penalty"][i]), "alpha": lg["alpha"][i], "tag": lg["tag"][i],
                         "knobs": [float(x) for x in lg["knobs"][i]], "targets": [float(x) for x in lg["targets"][i]],
                         "vary_active": [c == "y" for c in lg["vary_active"][i]],
                         "target_active": [c == "y" for c in lg["target_active"][i]],
                         "tol_met": lg["tol_met"][i], "hit_limits": lg["hit_limits"][i]})
        return rows

    def log_table_rows(self):
        """rows as the public log() Table reports them"""
        t = self.opt.log()
        n = len(t)
        out = []
        for i in range(n):
            out.append({"penalty": float(t["penalty"][i]), "alpha": None if t["alpha"][i] is None else int(t["alpha"][i]), "tag": str(t["tag"][i]),
                        "knobs": [float(t[f"vary_{j}"][i]) for j in range(self.nk)],
                        "targets": [float(t[f"target_{j}"][i]) for j in range(self.nt)],
                        "vary_active": [c == "y" for c in str(t["vary_active"][i])],
                        "target_active": [c == "y" for c in str(t["target_active"][i])]})
        return out


def ulps(a, b):
    """distance between two floats in units of the spacing at max(|a|,|b|)"""
    if a == b:
        return 0.0
    m = max(abs(a), abs(b))
    return abs(a - b) / math.ulp(m) if m > 0 else 0.0


def spec_str(spec):
    s = spec_defaults(spec)
    parts = [f"family={s['fam']}", f"x0={list(s['x0'])}"]
    for k in ("limits", "kw", "tw", "max_step"):
        if s[k] is not None:
            parts.append(f"{k}={s[k]}")
    parts.append(f"tol={s['tol']}")
    if s["tshift"]:
        parts.append(f"target_shift={s['tshift']}")
    if s["nsm"] != 20:
        parts.append(f"n_steps_max={s['nsm']}")
    if s["v_inactive"]:
        parts.append(f"vary_built_inactive={list(s['v_inactive'])} then enabled={list(s['enable_v'])}")
    if s["steps"] != 1e-6:
        parts.append(f"fd_step={s['steps']}")
    if s["dv"]:
        parts.append(f"disabled_vary={list(s['dv'])}")
    if s["dt"]:
        parts.append(f"disabled_targets={list(s['dt'])}")
    if s.get("lim_source", "explicit") != "explicit":
        parts.append(f"limits/step source={s['lim_source']} (container.vary_default)")
    if "check_limits" in s:
        parts.append(f"Optimize(check_limits={s['check_limits']})")
    return ", ".join(parts)
