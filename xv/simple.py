"""Generic history-exploration system for objects that are not Managers
(Table, Optimize).  A subclass provides

    universe                list of JSON-able operation tuples
    build()                 fresh live object(s)
    enabled(live, hist)     indices of operations enabled in the state `live`
    apply(live, op)         executes op on the live object; returns an observation; may raise
    canon(live)             bytes/str digest of the FULL concrete state
    transition(live, op, obs, exc, hist, mk)   -> list of issues  (oracle on the executed transition;
                            `mk()` builds a fresh replica of the state BEFORE the operation)
    state(mk_child, hist, op)                  -> list of issues  (invariants; evaluated on own replicas of the child)

and inherits expand()/root_digest() in the form explore.bfs expects.  States
are rebuilt by replaying the history on fresh objects.
"""
import hashlib
import traceback


def digest(obj):
    return hashlib.blake2b(repr(obj).encode(), digest_size=12).digest()


class SimpleSystem:
    prop = "C00"
    name = "system"

    def __init__(self, config_info=None):
        self.config_info = config_info or {}
        self._checked = set()

    # -- to override ---------------------------------------------------
    def build(self):
        raise NotImplementedError

    def enabled(self, live, hist):
        return range(len(self.universe))

    def apply(self, live, op):
        raise NotImplementedError

    def canon(self, live):
        raise NotImplementedError

    def transition(self, live, op, obs, exc, hist, mk):
        return []

    def state(self, mk_child, hist, op):
        return []

    def op_str(self, op):
        return repr(op)

    # -- machinery -----------------------------------------------------
    def replay(self, hist):
        live = self.build()
        for i in hist:
            try:
                self.apply(live, self.universe[i])
            except Exception:  # noqa  (an accepted transition may be an expected rejection)
                pass
        return live

    def root_digest(self):
        return self.canon(self.build())

    def issue(self, hist, op, what, detail=None, kind="violation", finding=None):
        ops = [self.universe[i] for i in hist] + ([op] if op is not None else [])
        return {"kind": kind, "property": self.prop, "what": what, "finding": finding,
                "config": self.config_info, "ops": [repr(o) for o in ops],
                "program": [self.op_str(o) for o in ops], "detail": detail,
                "case": {"system": self.name, "ops": [repr(o) for o in ops]}}

    def expand(self, hist):
        children, issues = [], []
        stats = {"ops": {}, "outcomes": {}}
        transitions = leaves = 0
        parent = self.replay(hist)
        for opi in self.enabled(parent, hist):
            op = self.universe[opi]
            live = self.replay(hist)
            exc = obs = None
            try:
                obs = self.apply(live, op)
            except Exception as e:  # noqa
                exc = e
            transitions += 1
            stats["ops"][op[0]] = stats["ops"].get(op[0], 0) + 1
            oc = type(exc).__name__ if exc is not None else "ok"
            stats["outcomes"][oc] = stats["outcomes"].get(oc, 0) + 1
            try:
                # the digest is taken BEFORE any oracle looks at the object: a query made by an oracle may itself leave state
                # behind (fill a cache), which must not leak into the identity of the explored state
                dg = self.canon(live)
                found = list(self.transition(live, op, obs, exc, hist, lambda: self.replay(hist)))
                if not found and dg not in self._checked:
                    if len(self._checked) > 1000000:
                        self._checked.clear()
                    self._checked.add(dg)
                    h2 = hist + (opi,)
                    found.extend(self.state(lambda: self.replay(h2), hist, op))
            except Exception as e:  # noqa
                found = [self.issue(hist, op, f"{type(e).__name__} while observing the state: {e}",
                                    {"traceback": traceback.format_exc()[-1500:]})]
                dg = None
            if found:
                issues.extend(found[:3])
                if any(f.get("kind") != "known" for f in found):
                    leaves += 1
                    continue      # a listed known finding does not end the exploration of that state
            children.append((dg, opi))
        if transitions == 0:
            leaves += 1
        return {"children": children, "transitions": transitions, "issues": issues, "stats": stats, "leaves": leaves}
