"""Manager harness shared by the history-exploring checks: worlds, alphabets,
replay, canonical state, and the judge that compares one real transition with
the reference model (including the classifier of the recorded
sibling-cycle finding)."""
import hashlib
import itertools

from . import terms as T
from .terms import PObj
from . import refmodel as RM
from .world import World, op_str, snippet, InjectedFault

# ------------------------------------------------------------------ worlds


def P(*steps):
    """('s', 'a') / ('s','n','x') shorthand -> item path; use ('a', name) tuples for attrs"""
    out = ["s"]
    for s in steps:
        out.append(s if isinstance(s, tuple) else ("i", s))
    return tuple(out)


W_NEST = {
    "name": "W-nest",
    "data": {"a": 1, "b": 2, "c": 4, "n": {"x": 10, "y": 20, "z": 30}},
    "leaves": [P("a"), P("b"), P("c"), P("n", "x"), P("n", "y"), P("n", "z")],
    "containers": {P("n"): {"x": 7, "y": 8, "z": 9}},
    "funs": {"F1": ((P("a"), P("b")), (P("c"),), "sum")},
    "knobs": {"K1": (P("a"), (1, 2), (P("b"), P("c")))},
}

W_NEST_4 = {
    "name": "W-nest-4",
    "data": {"a": 1, "n": {"x": 10, "y": 20, "z": 30}},
    "leaves": [P("a"), P("n", "x"), P("n", "y"), P("n", "z")],
    "containers": {},
    "funs": {},
    "knobs": {},
}

W_NEST_SMALL = {
    "name": "W-nest-small",
    "data": {"a": 1, "c": 4, "n": {"x": 10, "y": 20, "z": 30}},
    "leaves": [P("a"), P("c"), P("n", "x"), P("n", "y"), P("n", "z")],
    "containers": {},
    "funs": {},
    "knobs": {},
}

W_MIX = {
    "name": "W-mix",
    "data": {"a": 1, "b": 2, "i": 0, "l": [10, 20], "o": PObj(p=100, q=200), "k": 5},
    "leaves": [P("a"), P("b"), P("l", 0), P("l", 1), P("o", ("a", "p")), P("o", ("a", "q"))],
    "index_leaf": P("i"),
    "containers": {P("l"): [7, 8]},
    "funs": {"F1": ((P("a"),), (P("b"), P("k")), "sum")},
    "knobs": {"K1": (P("a"), (1, 2), (P("b"), P("k")))},
}

W_FLAT = {
    "name": "W-flat",
    "data": {"a": 1, "b": 2, "c": 4, "d": 8},
    "leaves": [P("a"), P("b"), P("c"), P("d")],
    "containers": {},
    "funs": {"F1": ((P("a"), P("b")), (P("c"), P("d")), "sum")},
    "knobs": {"K1": (P("a"), (1, 2), (P("b"), P("c")))},
}

W_MIX_ATTR = dict(W_MIX, name="W-mix-attr", refattr=True)
# the function task's action assigns its targets through the manager's references (nested plain-value assignments)
W_FLAT_REFS = dict(W_FLAT, name="W-flat-refs", fun_via_refs=True)

# two linear knobs sharing a target (and a reader of that target)
W_KNOBS = {
    "name": "W-knobs",
    "data": {"a": 1, "d": 2, "b": 10, "c": 20, "e": 0},
    "leaves": [P("a"), P("d"), P("c"), P("e")],
    "containers": {},
    "funs": {},
    "knobs": {"K1": (P("a"), (1, 2), (P("b"), P("c"))), "K2": (P("d"), (3,), (P("c"),))},
}

# a linear knob with three targets (an interrupted run has more than one way of being half done)
W_KNOB3 = {
    "name": "W-knob3",
    "data": {"a": 1, "b": 10, "c": 20, "d": 30, "e": 0},
    "leaves": [P("a"), P("e")],
    "containers": {},
    "funs": {},
    "knobs": {"K3": (P("a"), (1, 2, 3), (P("b"), P("c"), P("d")))},
}

# three levels of nesting: targets s['n']['m']['x'] and readers of the containers two levels above them
W_DEEP = {
    "name": "W-deep",
    "data": {"a": 1, "b": 2, "n": {"k": 5, "m": {"x": 10, "y": 20}}},
    "leaves": [P("a"), P("b"), P("n", "m", "x"), P("n", "m", "y")],
    "containers": {P("n"): {"k": 5, "m": {"x": 7, "y": 8}}, P("n", "m"): {"x": 7, "y": 8}},
    "funs": {}, "knobs": {},
}

WORLDS = {w["name"]: w for w in (W_NEST, W_NEST_4, W_NEST_SMALL, W_MIX, W_FLAT, W_MIX_ATTR, W_DEEP, W_KNOBS, W_FLAT_REFS, W_KNOB3)}


def tmpl(name, args):
    X = ("loc", args[0]) if args else None
    Y = ("loc", args[1]) if len(args) > 1 else None
    if name == "mul2":
        return ("bin", "mul", ("lit", 2), X)
    if name == "inc":
        return ("bin", "add", X, ("lit", 1))
    if name == "neg":
        return ("un", "neg", X)
    if name == "add":
        return ("bin", "add", X, Y)
    if name == "mul":
        return ("bin", "mul", X, Y)
    if name == "sub":
        return ("bin", "sub", X, Y)
    if name == "dbl":
        return ("call", "dbl", (X,), ())
    if name == "pick":
        return ("call", "pick", (X,), (("k", ("lit", 3)),))
    if name == "total":
        return ("call", "total", (X,), ())
    if name == "size":
        return ("call", "size", (X,), ())
    if name == "abs":
        return ("bi", "abs", X, ())
    if name == "round1":
        return ("bi", "round", ("bin", "truediv", X, ("lit", 4)), (("lit", 1),))
    if name == "dec":
        return ("bin", "sub", X, ("lit", 1))
    if name == "dyndiff":   # an index that is only in range while two locations are CONSISTENT with each other: l[X - Y]
        return ("dyn", args[0], ("bin", "sub", ("loc", args[1]), ("loc", args[2])))
    if name == "constcall":   # a definition that reads NO location of the data container: a call with numeric arguments only
        return ("call", "pick", (("lit", 3),), (("k", ("lit", 2)),))
    if name == "dyn":
        return ("dyn", args[0], ("loc", args[1]))
    if name == "dynx":   # a computed key that is an EXPRESSION of a reference: l[1 - i]
        return ("dyn", args[0], ("bin", "sub", ("lit", 1), ("loc", args[1])))
    if name == "lt":
        return ("bin", "lt", X, ("lit", 4))
    if name == "eqx":
        return ("cmp", "eq", X, ("lit", 3))
    if name == "floor":
        return ("bi", "floor", ("bin", "truediv", X, ("lit", 4)), ())
    if name == "roundr":  # a builtin whose extra parameter is itself a ref
        return ("bi", "round", ("bin", "truediv", X, ("lit", 7)), (Y,))
    if name == "kw2":     # a call with two keywords that are not in alphabetical order
        return ("call", "hyp", (), (("y", X), ("x", ("lit", 2))))
    if name == "unit":    # a string literal as positional argument of a call
        return ("call", "scale", (X, ("lit", "k")), ())
    if name == "litneg":  # explicit LiteralExpr nodes: under a unary operator and as an operand
        return ("bin", "mul", ("un", "neg", ("L", 2)), ("bin", "add", X, ("L", 1)))
    if name == "bigdiv":  # true division and modulo against a float (ints beyond the float range make Python raise OverflowError)
        return ("bin", "add", ("bin", "truediv", X, ("lit", 4)), ("bin", "mod", X, ("lit", 2.5)))
    if name == "flaky":  # a call whose evaluation is a fault point
        return ("call", "flaky", (X,), ())
    if name == "pair1":  # an item of a call RESULT: f.pair(X)[1]  (the owner of the item ref is a computed expression)
        return ("ix", ("call", "pair", (X,), ()), 1)
    if name == "cplx":   # an attribute of an operator result: (X * 1j).imag
        return ("at", ("bin", "mul", X, ("lit", 1j)), "imag")
    if name == "abs2":   # a builtin node as the FIRST operand of an enclosing operator
        return ("bin", "mul", ("bi", "abs", X, ()), ("lit", 2))
    if name == "addr":   # right-nested chain of one operator: X + (Y + 0.3)  (floating-point addition is not associative)
        return ("bin", "add", X, ("bin", "add", Y, ("lit", 0.3)))
    if name == "mulr":
        return ("bin", "mul", X, ("bin", "mul", Y, ("lit", 0.7)))
    if name == "rpow":
        return ("bin", "pow", ("lit", -2), ("bin", "mod", X, ("lit", 3)))
    if name == "mulm1":   # two definitions that differ only in literals whose Python hashes coincide: hash(-1) == hash(-2)
        return ("bin", "mul", X, ("lit", -1))
    if name == "mulm2":
        return ("bin", "mul", X, ("lit", -2))
    raise ValueError(name)


UNARY = ("dec", "mul2", "inc", "neg", "dbl", "pick", "abs", "round1", "lt", "eqx", "floor", "rpow", "abs2", "pair1", "cplx", "kw2", "unit", "flaky", "litneg", "bigdiv", "mulm1", "mulm2")
BINARY_SYM = ("add", "mul")
BINARY_ASYM = ("sub", "addr", "mulr", "roundr")


def build_universe(world, cfg):
    """Static operation universe for a world and an alphabet configuration.

    cfg keys: values, templates, iops [(opname, operand)], unreg, setc, funs,
    knobs, index_values, extra (literal list of ops)"""
    ops = []
    leaves = cfg.get("leaves") or world["leaves"]
    sources = cfg.get("sources") or leaves
    for L in leaves:
        for v in cfg.get("values", (3, 5)):
            ops.append(("set", L, v))
    il = world.get("index_leaf")
    if il and cfg.get("index_values"):
        for v in cfg["index_values"]:
            ops.append(("set", il, v))
    for name in cfg.get("templates", ()):
        for L in leaves:
            if name in UNARY:
                for X in sources:
                    if X != L:
                        ops.append(("def", L, tmpl(name, (X,))))
            elif name in BINARY_SYM:
                for X, Y in itertools.combinations(sources, 2):
                    if X != L and Y != L:
                        ops.append(("def", L, tmpl(name, (X, Y))))
            elif name in BINARY_ASYM:
                for X, Y in itertools.permutations(sources, 2):
                    if X != L and Y != L:
                        ops.append(("def", L, tmpl(name, (X, Y))))
            elif name == "constcall":
                ops.append(("def", L, tmpl(name, ())))
            elif name == "dyndiff":
                for C in world["containers"]:
                    if isinstance(world["containers"][C], list) and not T.overlap(C, L):
                        for X, Y in itertools.permutations(sources, 2):
                            if X != L and Y != L:
                                ops.append(("def", L, tmpl(name, (C, X, Y))))
            elif name in ("total", "size"):
                for C in world["containers"]:
                    if not T.overlap(C, L):
                        ops.append(("def", L, tmpl(name, (C,))))
            elif name in ("dyn", "dynx"):
                for C in world["containers"]:
                    if il and not T.overlap(C, L) and isinstance(world["containers"][C], list):
                        ops.append(("def", L, tmpl(name, (C, il))))
    for opname, operand in cfg.get("iops", ()):
        for L in leaves:
            if operand[0] == "src":
                for X in sources:
                    if X != L:
                        ops.append(("iop", L, opname, ("loc", X)))
            else:
                ops.append(("iop", L, opname, operand))
    if cfg.get("unreg"):
        for L in leaves:
            ops.append(("unreg", L))
    if cfg.get("setc"):
        for C, fresh in world["containers"].items():
            ops.append(("setc", C, fresh))
    for fid in cfg.get("funs", ()):
        ops.append(("regfun", fid))
        ops.append(("unregid", fid))
    for kid in cfg.get("knobs", ()):
        ops.append(("regknob", kid))
        ops.append(("unregid", kid))
    ops.extend(cfg.get("extra", ()))
    return ops


def task_regions(ms):
    """locations written by function / knob tasks"""
    out = []
    for t in ms.tasks.values():
        if t.kind in "FK":
            out.extend(t.writes)
    return out


def enabled(ms, universe, allow_cycles=False):
    fk = task_regions(ms)
    fonly = [w for t in ms.tasks.values() if t.kind == "F" for w in t.writes]
    res = []
    for i, op in enumerate(universe):
        k = op[0]
        if k in ("set", "def", "iop", "fsetset"):
            L = op[1]
            if k == "set" and ms.spec.get("name") == "W-knobs":
                # a plain value may be assigned to a target of a LINEAR KNOB (the knob is incremental: it adds w * delta later)
                if any(T.overlap(L, w) for w in fonly):
                    continue
            elif any(T.overlap(L, w) for w in fk):
                continue
            if k == "def":
                if not allow_cycles and not ms.p_acyclic_with(L, op[2]):
                    continue
            elif k == "iop":
                old = ms.expr_of(L)
                if old is not None:
                    term = ("bin", op[2], old, op[3])
                elif T.has_ref(op[3]):
                    term = ("bin", op[2], ("lit", 0), op[3])
                else:
                    term = None
                if term is not None and not allow_cycles and not ms.p_acyclic_with(L, term):
                    continue
        elif k == "callfun":
            # inputs of a generated function: locations without an expression that no function / knob task writes
            if any(("E", L) in ms.tasks or any(T.overlap(L, w) for w in fk) for L in op[1]):
                continue
        elif k == "unreg":
            if ("E", op[1]) not in ms.tasks:
                continue
        elif k == "setc":
            C = op[1]
            if any(any(T.overlap(C, w) for w in t.writes) for t in ms.tasks.values()):
                continue
        elif k in ("regfun", "regknob"):
            tid = ("F" if k == "regfun" else "K", op[1])
            if tid in ms.tasks:
                continue
            spec = ms.spec["funs" if k == "regfun" else "knobs"][op[1]]
            writes = spec[1] if k == "regfun" else spec[2]
            reads = spec[0] if k == "regfun" else (spec[0],)
            # targets must not already be defined or written by another task (two linear knobs may share a target: both add)
            if any(any(T.overlap(w, w2) for w2 in t.writes) for t in ms.tasks.values() for w in writes
                   if not (k == "regknob" and t.kind == "K")):
                continue
            # the knob source / function inputs must not be made cyclic
            new = RM.fun_task(op[1], spec) if k == "regfun" else RM.knob_task(op[1], spec, 0)
            tasks = dict(ms.tasks)
            tasks[new.tid] = new
            g = {a: [b for b in tasks if b != a and RM.p_edge(tasks[a], tasks[b])] for a in tasks}
            if RM.toposort_all(g) is None:
                continue
            if ms.frozen:
                pass
        elif k == "unregid":
            if not any(t[0] in "FK" and t[1] == op[1] for t in ms.tasks):
                continue
        elif k in ("load", "copyfrom"):
            ok = True
            tmp = ms
            for path, term in op[1]:
                if any(T.overlap(path, w) for w in fk):
                    ok = False
                    break
                if ("E", path) in tmp.tasks and not op[2]:
                    continue
                if not allow_cycles and not tmp.p_acyclic_with(path, term):
                    ok = False
                    break
                tmp = tmp.clone()
                tmp.tasks.pop(("E", path), None)
                tmp.tasks[("E", path)] = RM.expr_task(path, term)
            if not ok:
                continue
        res.append(i)
    return res


# ------------------------------------------------------------------ canon


def index_dump(m):
    """Readable dump of the four indices (keys and counts, insertion order)."""
    out = []
    for name in ("rdeps", "rtasks", "deptasks", "tartasks"):
        d = getattr(m, name)
        out.append([(str(k), [(str(i), c) for i, c in v.items()]) for k, v in d.items()])
    return out


def index_fingerprint(m):
    """Same information as index_dump with refs replaced by their structural
    hash (a deterministic function of the path inside one interpreter, since
    the hash seed is fixed per configuration) — much cheaper than printing."""
    out = []
    for d in (m.rdeps, m.rtasks, m.deptasks, m.tartasks):
        out.append([(hash(k), [(hash(i), c) for i, c in v.items()]) for k, v in d.items()])
    return out


_KNOWN_MGR = {"tasks", "containers", "rdeps", "rtasks", "deptasks", "tartasks", "_tree_frozen"}
_KNOWN_TASK = {"taskid", "targets", "dependencies", "expr", "source", "weights", "prev_value", "_applied", "action"}
_ADDR = __import__("re").compile(r" at 0x[0-9a-fA-F]+")


def _brief(v, depth=0):
    """deterministic description of an attribute value the harness does not know about"""
    if isinstance(v, dict):
        return sorted((_brief(k, depth + 1), _brief(x, depth + 1)) for k, x in list(v.items())[:200])
    if isinstance(v, (list, tuple, set, frozenset)):
        items = [_brief(x, depth + 1) for x in list(v)[:200]]
        return sorted(items, key=repr) if isinstance(v, (set, frozenset)) else items
    try:
        return _ADDR.sub("", repr(v))[:300]
    except Exception:  # noqa
        return type(v).__name__


def hidden_state(m):
    """Attributes of the manager and of its tasks that the harness does not model (a cache or flag added by a change to the
    library).  They are part of the canonical state so that two histories are never merged while such state differs."""
    out = []
    for k in sorted(getattr(m, "__dict__", {})):
        if k not in _KNOWN_MGR:
            out.append((k, _brief(m.__dict__[k])))
    for tid, t in m.tasks.items():
        d = getattr(t, "__dict__", None)
        if d:
            for k in sorted(d):
                if k not in _KNOWN_TASK:
                    out.append((str(tid), k, _brief(d[k])))
    return out


def canon_obs(w, extra=None):
    """observable concrete state (no unmodelled attributes): used by oracles that compare two managers, so that a semantically
    transparent cache or counter added to the library can never raise an alarm"""
    return canon(w, extra, hidden=False)


def canon(w, extra=None, hidden=True):
    m = w.m
    tasks = []
    for k, t in m.tasks.items():
        tasks.append((hash(k), type(t).__name__, hash(getattr(t, "expr", None)),
                      repr(getattr(t, "prev_value", None)), repr(getattr(t, "_applied", None))))
    parts = (repr(w.contents()), tasks, index_fingerprint(m), m._tree_frozen, extra, hidden_state(m) if hidden else None)
    return hashlib.blake2b(repr(parts).encode(), digest_size=12).digest()


# ------------------------------------------------------------------ judge


def observed_order(events, ns, assigned):
    """Map the write trace of one update to the sequence of tasks that ran.
    Returns (order, problem) where problem is None or a string."""
    ev = list(events)
    if assigned is not None:
        if not ev or ev[0][0] != assigned:
            return None, "the assignment's own write is missing or not first"
        ev = ev[1:]
    by_write = {}
    for tid, t in ns.tasks.items():
        for wloc in t.writes:
            by_write.setdefault(wloc, []).append(tid)
    order = []
    i = 0
    while i < len(ev):
        path = ev[i][0]
        tids = by_write.get(path)
        if not tids:
            return None, f"write to {T.path_str(path)} which no task targets"
        tid = tids[0]
        t = ns.tasks[tid]
        if t.kind == "E":
            order.append(tid)
            i += 1
        else:
            n = len(t.writes)
            got = tuple(e[0] for e in ev[i:i + n])
            if got != tuple(t.writes):
                return None, f"partial run of task {tid}"
            order.append(tid)
            i += n
    return order, None


def order_violations(order, ns):
    pos = {}
    for i, tid in enumerate(order):
        pos.setdefault(tid, i)
    bad = []
    for a in pos:
        for b in pos:
            if a != b and RM.p_edge(ns.tasks[a], ns.tasks[b]) and pos[a] > pos[b]:
                bad.append((a, b))
    return bad


def spurious_path(ns, src, dst):
    """Is there a path src ~> dst in G using at least one edge of G minus P?"""
    ids = list(ns.tasks)
    seen = set()
    todo = [(src, False)]
    while todo:
        node, used = todo.pop()
        if (node, used) in seen:
            continue
        seen.add((node, used))
        if node == dst and used:
            return True
        for b in ids:
            if RM.g_edge(ns.tasks[node], ns.tasks[b]):
                sp = used or not (node != b and RM.p_edge(ns.tasks[node], ns.tasks[b]))
                todo.append((b, sp))
    return False


def order_underdetermined(ns, trigger):
    """Static criterion on the model graph: some precise edge a->b between two
    triggered tasks lies on a cycle of the documented ordering graph G that
    uses a spurious (G minus P) edge.  Exactly then a depth-first sort of G
    may legitimately (given the recorded finding) put b before a."""
    trig = list(trigger)
    for a in trig:
        for b in trig:
            if a != b and RM.p_edge(ns.tasks[a], ns.tasks[b]) and spurious_path(ns, b, a):
                return True
    return False


def classify_sibling_cycle(ms_pre, op, ns, ex, events, observed_contents):
    """All four conditions of DESIGN 2.7 for the recorded finding.  Returns
    (True, detail) only when the execution differs from the model in nothing
    but an order forced by a spurious cycle through a shared container."""
    order, problem = observed_order(events, ns, ex.assigned)
    if order is None:
        return False, problem
    if len(set(order)) != len(order):
        return False, "a task ran more than once"
    if set(order) != set(ex.trigger):
        return False, "the set of tasks that ran is not the trigger set"
    try:
        redo, _ = step_with_order(ms_pre, op, order)
    except Exception as e:  # noqa
        return False, f"re-execution in observed order failed: {type(e).__name__}"
    if not T.same(redo.vals["s"], observed_contents):
        return False, "contents are not what the observed order produces"
    bad = order_violations(order, ns)
    if not bad:
        return False, "no precise-order edge is violated"
    for a, b in bad:
        if not spurious_path(ns, b, a):
            return False, f"violated edge {a}->{b} is not on a spurious cycle"
    return True, {"order": [str(t) for t in order], "violated": [(str(a), str(b)) for a, b in bad]}


def step_with_order(ms, op, order):
    """Model step in which the triggered tasks run in `order`."""
    ns = ms.clone()
    path = op[1]
    k = op[0]
    import copy as _copy
    if k == "set":
        value, term = op[2], None
    elif k == "setc":
        value, term = RM.plain_copy(op[2]), None
    elif k == "def":
        value, term = None, op[2]
    else:
        old = ns.expr_of(path)
        if old is not None:
            term, value = ("bin", op[2], old, op[3]), None
        elif T.has_ref(op[3]):
            term, value = ("bin", op[2], ("lit", ns.get(path)), op[3]), None
        else:
            term, value = None, T.BIN[op[2]](ns.get(path), T.ev(op[3], ns.roots()))
    ns.tasks.pop(("E", path), None)
    if term is not None:
        ns.tasks[("E", path)] = RM.expr_task(path, term)
        value = T.ev(term, ns.roots())
    T.set_path(ns.vals, path, value)
    ns.run(order)
    return ns, None


class Verdict:
    __slots__ = ("kind", "what", "detail")

    def __init__(self, kind, what="", detail=None):
        self.kind = kind      # 'ok' | 'known' | 'violation'
        self.what = what
        self.detail = detail


def defs_problem(w, ns):
    """the SET of definitions the manager holds must be the one the reference model holds (which locations have an expression, which
    function / knob tasks are registered): a state whose contents agree but whose definitions do not has already left the model"""
    exp = set()
    for tid in ns.tasks:
        exp.add(w.ref(tid[1]) if tid[0] == "E" else tid[1])
    try:
        got = set(w.m.tasks)
    except Exception as e:  # noqa
        return f"cannot read Manager.tasks: {type(e).__name__}"
    if got != exp:
        return (f"definitions differ from the reference model: the manager holds {sorted(map(str, got))}, "
                f"the model {sorted(map(str, exp))}")
    return None


def judge(w, ms_pre, op, ns, ex, exc):
    v = _judge(w, ms_pre, op, ns, ex, exc)
    if v.kind == "ok":
        bad = defs_problem(w, ns)
        if bad:
            return Verdict("violation", bad)
    return v


def _judge(w, ms_pre, op, ns, ex, exc):
    """Compare one executed transition with the model's prescription."""
    if op[0] == "fsetset":
        op = ("set", op[1], op[2])      # a failed-then-repeated assignment is judged as the assignment
    if ex.raises and ex.raises.endswith("?"):
        if exc is not None and type(exc).__name__ != ex.raises[:-1]:
            return Verdict("violation", f"expected {ex.raises[:-1]} or success, got {type(exc).__name__}")
        if not T.same(w.contents(), ns.vals["s"]):
            return Verdict("violation", "operation changed the data")
        return Verdict("ok")
    if ex.raises:
        if exc is None or type(exc).__name__ != ex.raises:
            return Verdict("violation", f"expected {ex.raises}, got {type(exc).__name__ if exc else 'no exception'}")
        if not T.same(w.contents(), ns.vals["s"]):
            return Verdict("violation", "rejected operation changed the data")
        return Verdict("ok")
    if exc is not None:
        return Verdict("violation", f"unexpected {type(exc).__name__}: {exc}")
    obs = w.contents()
    if T.same(obs, ns.vals["s"]):
        return Verdict("ok")
    if op[0] == "callfun":
        # several inputs written at once: the static criterion decides whether the recorded finding leaves the order open
        if order_underdetermined(ns, ex.trigger):
            return Verdict("known", "sibling-cycle", {"static": True})
        return Verdict("violation", "contents differ from the reference model")
    if ex.assigned is not None:
        hit, detail = classify_sibling_cycle(ms_pre, op, ns, ex, w.trace.events, obs)
        if hit:
            return Verdict("known", "sibling-cycle", detail)
        return Verdict("violation", "contents differ from the reference model", {"classifier": detail})
    return Verdict("violation", "contents differ from the reference model")


def diff_contents(obs, exp, prefix="s"):
    out = []
    if isinstance(obs, dict) and isinstance(exp, dict):
        for k in sorted(set(obs) | set(exp), key=repr):
            if k not in obs or k not in exp:
                out.append(f"{prefix}[{k!r}]: observed {obs.get(k, '<absent>')!r} expected {exp.get(k, '<absent>')!r}")
            else:
                out.extend(diff_contents(obs[k], exp[k], f"{prefix}[{k!r}]"))
    elif isinstance(obs, list) and isinstance(exp, list) and len(obs) == len(exp):
        for i, (a, b) in enumerate(zip(obs, exp)):
            out.extend(diff_contents(a, b, f"{prefix}[{i}]"))
    elif isinstance(obs, PObj) and isinstance(exp, PObj):
        out.extend(diff_contents(obs.__dict__, exp.__dict__, prefix + "."))
    elif not T.same(obs, exp):
        out.append(f"{prefix}: observed {obs!r} expected {exp!r}")
    return out


# ------------------------------------------------------------------ system


class ManagerSystem:
    """History-exploration system over a Manager world.  Subclasses override
    `transition_checks` / `state_checks` to add property-specific oracles."""

    prop = "C00"
    allow_cycles = False
    # Transitions whose outcome is under-determined by the recorded
    # sibling-cycle finding are always pruned (the real state has left the
    # model); only the properties the finding belongs to report it.
    report_known = False

    def __init__(self, world, cfg, config_info=None):
        self.world = world
        self.cfg = cfg
        self.universe = build_universe(world, cfg)
        self.config_info = config_info or {}
        self._model_cache = {}
        self._checked = set()   # digests whose (deterministic) state checks already ran in this worker

    # model replay with a small prefix cache
    def model_of(self, hist):
        ms = self._model_cache.get(hist)
        if ms is not None:
            return ms
        if not hist:
            ms = RM.MState(self.world)
        else:
            ms, _ = RM.step(self.model_of(hist[:-1]), self.universe[hist[-1]])
        if len(self._model_cache) > 20000:
            self._model_cache.clear()
        self._model_cache[hist] = ms
        return ms

    def replay(self, hist):
        w = World(self.world)
        for i in hist:
            try:
                w.apply(self.universe[i])
            except Exception:  # noqa
                # histories are only extended over operations whose outcome
                # (including an expected rejection) matched the model
                pass
        w.trace.reset()
        return w

    def root_digest(self):
        return canon(World(self.world))

    def issue(self, kind, hist, op, what, detail=None, finding=None):
        ops = [self.universe[i] for i in hist] + ([op] if op is not None else [])
        return {
            "kind": kind, "property": self.prop, "what": what, "finding": finding,
            "world": self.world["name"], "config": self.config_info,
            "ops": [repr(o) for o in ops],
            "program": [op_str(o) for o in ops],
            "detail": detail,
            "case": {"world": self.world["name"], "cfg": "see ops", "ops_raw": ops},
        }

    def enabled_ops(self, hist, ms):
        return enabled(ms, self.universe, self.allow_cycles)

    def state_extra(self, hist, opi):
        """whatever else of the HISTORY decides which operations are enabled next (so that it is part of the state identity)"""
        return None

    def transition_checks(self, w, ms, op, ns, ex, hist):
        """extra oracles on the executed transition; return list of issues"""
        return []

    def state_checks(self, w, ns, hist, op):
        """destructive invariant checks on the (discarded) child object"""
        return []

    def expand(self, hist):
        ms = self.model_of(hist)
        children = []
        issues = []
        stats = {"ops": {}, "verdicts": {}, "trigger_sizes": {}}
        transitions = 0
        leaves = 0
        for opi in self.enabled_ops(hist, ms):
            op = self.universe[opi]
            w = self.replay(hist)
            exc = None
            try:
                w.apply(op)
            except Exception as e:  # noqa
                exc = e
            transitions += 1
            ns, ex = RM.step(ms, op)
            v = judge(w, ms, op, ns, ex, exc)
            stats["ops"][op[0]] = stats["ops"].get(op[0], 0) + 1
            stats["verdicts"][v.kind] = stats["verdicts"].get(v.kind, 0) + 1
            if ex.assigned is not None:
                n = len(ex.trigger)
                stats["trigger_sizes"][n] = stats["trigger_sizes"].get(n, 0) + 1
            if v.kind == "violation":
                obs = w.contents()
                d = {"verdict": v.detail, "diff": diff_contents(obs, ns.vals["s"])[:8],
                     "trace": [(T.path_str(p), repr(val)) for p, val in w.trace.events][:20]}
                issues.append(self.issue("violation", hist, op, v.what, d))
                leaves += 1
                continue
            if v.kind == "known":
                if self.report_known:
                    issues.append(self.issue("known", hist, op, v.what, v.detail, finding=v.what))
                stats["pruned_order_underdetermined"] = stats.get("pruned_order_underdetermined", 0) + 1
                leaves += 1
                continue
            try:
                # digest first: an oracle's own queries must not leak into the identity of the explored state
                dg = canon(w, self.state_extra(hist, opi))
                issues.extend(self.transition_checks(w, ms, op, ns, ex, hist))
                if dg not in self._checked:
                    if len(self._checked) > 2000000:
                        self._checked.clear()
                    self._checked.add(dg)
                    issues.extend(self.state_checks(w, ns, hist, op))
            except Exception as e:  # noqa
                import traceback
                issues.append(self.issue("violation", hist, op,
                                         f"{type(e).__name__} while observing the state: {e}",
                                         {"traceback": traceback.format_exc()[-1500:]}))
                leaves += 1
                continue
            children.append((dg, opi))
        if transitions == 0:
            leaves += 1
        return {"children": children, "transitions": transitions, "issues": issues,
                "stats": stats, "leaves": leaves}
